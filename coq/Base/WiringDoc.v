(* REVIEWED tables of bypass call sites and application wiring.

   Hand-written from the Go source (provenance, HEAD of /repo at the time of writing) after reading every
   site: each row carries a one-line justification of why the protection may be skipped THERE.  These are
   the tables the properties C03 (holds), C04 (marker restrictions), C06 (sanctions) and C07 (quarantine)
   rely on; Properties/Wiring.v proves that the tables REGENERATED from the source on every run
   (Gen/GenBypassSites.v, Gen/GenWiring.v) are equal to them.  When the source gains, loses or moves a
   site into another function, that theorem stops compiling and the check of the property whose flag
   it is reports it; a reviewer then inspects the new site and edits THIS file (never the Gen files).

   Rows are keyed by (flag function, package directory, enclosing function); the order is the
   translator's: by flag, package, function.  No proofs in this file. *)
From Coq Require Import List String.
From PV Require Import Base.WiringTypes.
Import ListNotations.
Open Scope string_scope.

Definition call (flag pkg func : string) : site :=
  {| s_flag := flag; s_pkg := pkg; s_func := func; s_shape := "call" |}.

(* ---------------------------------------------------------------------------------------------- *)
(* Flag SETTERS: 22 sites.                                                                         *)
Definition reviewed_bypass_sites : list site := [
  (* C03. Read-only crisis invariant: at block time zero (genesis export) vesting locks would make already
     held funds look unspendable; the ctx goes only to ValidateNewHold -> SpendableCoins, nothing moves. *)
  call "banktypes.WithVestingLockedBypass" "x/hold/keeper" "holdAccountBalancesInvariantHelper";
  (* C03. Same read-only invariant: it re-validates every existing hold as if it were new, so the hold
     getter must not count the hold itself twice; the ctx is never passed to a bank send. THE ONLY SITE. *)
  call "hold.WithBypass" "x/hold/keeper" "holdAccountBalancesInvariantHelper";
  (* C04. Ante fee deduction: set only when feegrant.UseGrantedFees accepted the grant (usedFeeGrant), so that
     a marker account that granted an allowance (marker GrantAllowance, needs ADMIN) can pay the base fee. *)
  call "internalsdk.WithFeeGrantInUse" "internal/antewrapper" "ProvenanceDeductFeeDecorator.checkDeductBaseFee";
  (* C04. Post-msg fee sweep: same condition (usedFeegrant returned by GetFeePayerUsingFeeGrant), ctx used only
     for DeductFeesDistributions to the fee collector / msg-fee recipients. *)
  call "internalsdk.WithFeeGrantInUse" "internal/handlers" "MsgFeeInvoker.Invoke";
  (* C04. Mint/burn of a marker's own supply between the marker module account and the marker account; both
     ends are module-controlled, required attributes / transfer permission do not apply to escrow moves. *)
  call "markertypes.WithBypass" "x/marker/keeper" "Keeper.AdjustCirculation";
  (* C04. Governance proposal (authority-checked by the msg server, marker must allow governance control):
     sends freshly minted coins out of the marker account to the proposal's target. *)
  call "markertypes.WithBypass" "x/marker/keeper" "Keeper.HandleSupplyIncreaseProposal";
  (* C04. Governance proposal WithdrawEscrow (authority + HasGovernanceEnabled checked first). *)
  call "markertypes.WithBypass" "x/marker/keeper" "Keeper.HandleWithdrawEscrowProposal";
  (* C04. After ValidateAddressHasAccess(admin, TRANSFER), authz check for a foreign sender, escrow grant:
     the IBC transfer server does the send; marker rules were applied by this function itself. *)
  call "markertypes.WithBypass" "x/marker/keeper" "Keeper.IbcTransferCoin";
  (* C04. After TRANSFER / FORCE_TRANSFER access, validateSendToMarker, authz or forced-transfer checks and
     BlockedAddr: the marker module is the component that implements the transfer rule. *)
  call "markertypes.WithBypass" "x/marker/keeper" "Keeper.TransferCoin";
  (* C04. After ValidateAddressHasAccess(caller, WITHDRAW), validateSendToMarker, active status and
     BlockedAddr: withdraw from the marker's own escrow. *)
  call "markertypes.WithBypass" "x/marker/keeper" "Keeper.WithdrawCoins";
  (* C04. One-time v3->v4 store migration moving scope value owners into the bank ledger: a marker value
     owner was set by someone with DEPOSIT at the time; quarantine is deliberately NOT bypassed. *)
  call "markertypes.WithBypass" "x/metadata/keeper" "migrateValueOwners";
  (* C04. Not a bypass: names the market admin (PERMISSION_SETTLE checked by the msg server) as the transfer
     agent, whose marker access the send restriction then checks for every commitment transfer. *)
  call "markertypes.WithTransferAgents" "x/exchange/keeper" "Keeper.SettleCommitments";
  (* C04. Same for order settlement: agent = req.Admin (CanSettleOrders checked by the msg server). *)
  call "markertypes.WithTransferAgents" "x/exchange/keeper" "Keeper.SettleOrders";
  (* C04. Same for market withdrawals: agent = withdrawnBy (CanWithdrawMarketFunds checked by the caller). *)
  call "markertypes.WithTransferAgents" "x/exchange/keeper" "Keeper.WithdrawMarketFunds";
  (* C04. Agents = the msg signers validated by ValidateDeleteScope (ValidateScopeValueOwnersSigners). *)
  call "markertypes.WithTransferAgents" "x/metadata/keeper" "msgServer.DeleteScope";
  (* C04. Agents = signers returned by ValidateUpdateValueOwners. *)
  call "markertypes.WithTransferAgents" "x/metadata/keeper" "msgServer.MigrateValueOwner";
  (* C04. Agents = signers returned by ValidateUpdateValueOwners. *)
  call "markertypes.WithTransferAgents" "x/metadata/keeper" "msgServer.UpdateValueOwners";
  (* C04. Agents = signers returned by ValidateWriteScope. *)
  call "markertypes.WithTransferAgents" "x/metadata/keeper" "msgServer.WriteScope";
  (* C07. The target signs MsgAcceptPayment naming source and amounts: that signature is the acceptance;
     the source agreed when creating the payment (funds were on hold since). *)
  call "quarantine.WithBypass" "x/exchange/keeper" "Keeper.AcceptPayment";
  (* C07. Every exchange settlement transfer: creating an order / commitment counts as acceptance of what
     that order says the account will receive (comment at the site). *)
  call "quarantine.WithBypass" "x/exchange/keeper" "Keeper.DoTransfer";
  (* C07. Only inside `if toAddr.Equals(admin)`: the signer of the withdrawal is the receiver. *)
  call "quarantine.WithBypass" "x/exchange/keeper" "Keeper.WithdrawMarketFunds";
  (* C07. The release itself: funds holder -> toAddr once a record is fully accepted; without the bypass the
     released funds would be quarantined again. *)
  call "quarantine.WithBypass" "x/quarantine/keeper" "Keeper.AcceptQuarantinedFunds"
  (* sanction.WithBypass: NO site.  Nothing in the application moves funds of a sanctioned account. *)
].

(* ---------------------------------------------------------------------------------------------- *)
(* Flag READERS: each flag is consulted by exactly the protection it belongs to.                     *)
Definition reviewed_flag_readers : list site := [
  (* the hold locked-coins getter returns nothing under the flag *)
  call "hold.HasBypass" "x/hold/keeper" "Keeper.GetLockedCoins";
  (* marker send restriction: a feegrant in use replaces the WITHDRAW check for sends out of a marker account *)
  call "internalsdk.HasFeeGrantInUse" "x/marker/keeper" "Keeper.SendRestrictionFn";
  (* marker send restriction: the agents whose access is checked instead of the sender's *)
  call "markertypes.GetTransferAgents" "x/marker/keeper" "Keeper.SendRestrictionFn";
  (* marker send restriction: skipped (except the fee-collector rule) under the flag *)
  call "markertypes.HasBypass" "x/marker/keeper" "Keeper.SendRestrictionFn";
  (* quarantine send restriction: funds go straight to toAddr under the flag *)
  call "quarantine.HasBypass" "x/quarantine/keeper" "Keeper.SendRestrictionFn";
  (* sanction send restriction: the sanctioned-sender test is skipped under the flag *)
  call "sanction.HasBypass" "x/sanction/keeper" "Keeper.SendRestrictionFn"
  (* banktypes.HasVestingLockedBypass is read inside the forked SDK's bank keeper (outside /repo). *)
].

(* ---------------------------------------------------------------------------------------------- *)
(* Context KEYS behind the flags.  They are plain strings, so ctx.WithValue("bypass-...", true) from any
   package would set a flag without calling a setter: the keys may be mentioned only by their declaration
   and by the With* / Without* / Has* / Get* functions of the declaring package.                         *)
Definition key_use (key pkg func shape : string) : site :=
  {| s_flag := key; s_pkg := pkg; s_func := func; s_shape := shape |}.

Definition reviewed_flag_key_uses : list site := [
  key_use "-locked-coins" "x/hold" "const bypassKey" "literal";  (* "bypass-" + ModuleName + "-locked-coins" *)
  key_use "bypass-" "x/hold" "const bypassKey" "literal";
  key_use "bypass-marker-restriction" "x/marker/types" "var bypassKey" "literal";
  key_use "bypass-quarantine-restriction" "x/quarantine" "var bypassKey" "literal";
  key_use "bypass-sanction-restriction" "x/sanction" "var bypassKey" "literal";
  key_use "bypassKey" "x/hold" "HasBypass" "ident";
  key_use "bypassKey" "x/hold" "WithBypass" "ident";
  key_use "bypassKey" "x/hold" "WithoutBypass" "ident";
  key_use "bypassKey" "x/hold" "const bypassKey" "declaration";
  key_use "bypassKey" "x/marker/types" "HasBypass" "ident";
  key_use "bypassKey" "x/marker/types" "WithBypass" "ident";
  key_use "bypassKey" "x/marker/types" "WithoutBypass" "ident";
  key_use "bypassKey" "x/marker/types" "var bypassKey" "declaration";
  key_use "bypassKey" "x/quarantine" "HasBypass" "ident";
  key_use "bypassKey" "x/quarantine" "WithBypass" "ident";
  key_use "bypassKey" "x/quarantine" "WithoutBypass" "ident";
  key_use "bypassKey" "x/quarantine" "var bypassKey" "declaration";
  key_use "bypassKey" "x/sanction" "HasBypass" "ident";
  key_use "bypassKey" "x/sanction" "WithBypass" "ident";
  key_use "bypassKey" "x/sanction" "WithoutBypass" "ident";
  key_use "bypassKey" "x/sanction" "var bypassKey" "declaration";
  key_use "feeGranteeKey" "internal/sdk" "HasFeeGrantInUse" "ident";
  key_use "feeGranteeKey" "internal/sdk" "WithFeeGrantInUse" "ident";
  key_use "feeGranteeKey" "internal/sdk" "WithoutFeeGrantInUse" "ident";
  key_use "feeGranteeKey" "internal/sdk" "var feeGranteeKey" "declaration";
  key_use "marker-transfer-agents" "x/marker/types" "var transferAgentKey" "literal";
  key_use "pio-feegrant-in-use" "internal/sdk" "var feeGranteeKey" "literal";
  key_use "transferAgentKey" "x/marker/types" "GetTransferAgents" "ident";
  key_use "transferAgentKey" "x/marker/types" "WithTransferAgents" "ident";
  key_use "transferAgentKey" "x/marker/types" "WithoutTransferAgents" "ident";
  key_use "transferAgentKey" "x/marker/types" "var transferAgentKey" "declaration"
].

(* ---------------------------------------------------------------------------------------------- *)
(* Bank-keeper hook registrations anywhere in the repository: each protection registers itself once, in
   its keeper constructor, on the bank keeper it is given.                                              *)
Definition reviewed_hook_registrations : list site := [
  {| s_flag := "AppendLockedCoinsGetter"; s_pkg := "x/hold/keeper"; s_func := "NewKeeper"; s_shape := "GetLockedCoins" |};
  {| s_flag := "AppendSendRestriction"; s_pkg := "x/marker/keeper"; s_func := "NewKeeper"; s_shape := "SendRestrictionFn" |};
  {| s_flag := "AppendSendRestriction"; s_pkg := "x/quarantine/keeper"; s_func := "NewKeeper"; s_shape := "SendRestrictionFn" |};
  {| s_flag := "AppendSendRestriction"; s_pkg := "x/sanction/keeper"; s_func := "NewKeeper"; s_shape := "SendRestrictionFn" |}
].

(* ---------------------------------------------------------------------------------------------- *)
(* app/app.go.  Argument texts are written with simple locals of New RESOLVED (one level of constant
   propagation by the translator: a local defined once by `x := expr`, never reassigned, address never
   taken, is shown as expr wherever it is a whole call argument — e.g. appCodec =
   codec.NewProtoCodec(interfaceRegistry), govAuthority = authtypes.NewModuleAddress(govtypes.ModuleName).String()),
   so introducing or inlining such a local does not change a fact.                                    *)
Definition reviewed_wiring : list fact := [
  (* module account permissions (map literal; sorted by key, .perms is parallel to .keys) *)
  ("macc_perms.keys", ["attributetypes.ModuleName"; "authtypes.FeeCollectorName"; "distrtypes.ModuleName";
     "govtypes.ModuleName"; "ibchookstypes.ModuleName"; "ibctransfertypes.ModuleName"; "icatypes.ModuleName";
     "markertypes.ModuleName"; "metadatatypes.ModuleName"; "minttypes.ModuleName"; "oracletypes.ModuleName";
     "stakingtypes.BondedPoolName"; "stakingtypes.NotBondedPoolName"; "triggertypes.ModuleName"; "wasmtypes.ModuleName"]);
  ("macc_perms.perms", [""; ""; "";
     "authtypes.Burner"; ""; "authtypes.Minter,authtypes.Burner"; "";
     "authtypes.Minter,authtypes.Burner"; "authtypes.Minter,authtypes.Burner"; "authtypes.Minter"; "";
     "authtypes.Burner,authtypes.Staking"; "authtypes.Burner,authtypes.Staking"; ""; "authtypes.Burner"]);
  (* read by New (account keeper, unsanctionable list) and ModuleAccountAddrs (bank blocked addresses); never written *)
  ("macc_perms.read_in", ["App.ModuleAccountAddrs"; "New"]);
  ("macc_perms.writes", []);
  (* send restrictions in registration order = construction order of the keepers in New: marker, sanction,
     quarantine, all on app.BankKeeper.  Quarantine is last, so marker and sanction see the real receiver
     before quarantine redirects the funds to its holder account. *)
  ("send_restrictions.method", ["AppendSendRestriction"; "AppendSendRestriction"; "AppendSendRestriction"]);
  ("send_restrictions.pkg", ["x/marker/keeper"; "x/sanction/keeper"; "x/quarantine/keeper"]);
  ("send_restrictions.ctor", ["NewKeeper"; "NewKeeper"; "NewKeeper"]);
  ("send_restrictions.fn", ["SendRestrictionFn"; "SendRestrictionFn"; "SendRestrictionFn"]);
  ("send_restrictions.on", ["app.BankKeeper"; "app.BankKeeper"; "app.BankKeeper"]);
  ("send_restrictions.assigned_to", ["app.MarkerKeeper"; "app.SanctionKeeper"; "app.QuarantineKeeper"]);
  (* the hold keeper is the only locked-coins getter besides the SDK's vesting one *)
  ("locked_coins_getters.method", ["AppendLockedCoinsGetter"]);
  ("locked_coins_getters.pkg", ["x/hold/keeper"]);
  ("locked_coins_getters.ctor", ["NewKeeper"]);
  ("locked_coins_getters.fn", ["GetLockedCoins"]);
  ("locked_coins_getters.on", ["app.BankKeeper"]);
  ("locked_coins_getters.assigned_to", ["app.HoldKeeper"]);
  ("hook_registrations.not_reached_from_new", []);
  (* constructor calls of the registering keepers *)
  ("ctor.x/marker/keeper.params", ["cdc"; "key"; "authKeeper"; "bankKeeper"; "authzKeeper"; "feegrantKeeper"; "attrKeeper";
     "nameKeeper"; "ibcTransferServer"; "reqAttrBypassAddrs"; "checker"]);
  ("ctor.x/marker/keeper.args", ["codec.NewProtoCodec(interfaceRegistry)"; "keys[markertypes.StoreKey]"; "app.AccountKeeper"; "app.BankKeeper";
     "app.AuthzKeeper"; "app.FeeGrantKeeper"; "app.AttributeKeeper"; "app.NameKeeper"; "app.TransferKeeper";
     "markerReqAttrBypassAddrs"; "NewGroupCheckerFunc(app.GroupKeeper)"]);
  ("ctor.x/marker/keeper.assigned_to", ["app.MarkerKeeper"]);
  ("ctor.x/hold/keeper.params", ["cdc"; "storeKey"; "bankKeeper"]);
  ("ctor.x/hold/keeper.args", ["codec.NewProtoCodec(interfaceRegistry)"; "keys[hold.StoreKey]"; "app.BankKeeper"]);
  ("ctor.x/hold/keeper.assigned_to", ["app.HoldKeeper"]);
  ("ctor.x/sanction/keeper.params", ["cdc"; "storeKey"; "bankKeeper"; "govKeeper"; "authority"; "unsanctionableAddrs"]);
  ("ctor.x/sanction/keeper.args", ["codec.NewProtoCodec(interfaceRegistry)"; "keys[sanction.StoreKey]"; "app.BankKeeper"; "&app.GovKeeper"; "authtypes.NewModuleAddress(govtypes.ModuleName).String()";
     "unsanctionableAddrs"]);
  ("ctor.x/sanction/keeper.assigned_to", ["app.SanctionKeeper"]);
  ("ctor.x/quarantine/keeper.params", ["cdc"; "storeKey"; "bankKeeper"; "fundsHolder"]);
  ("ctor.x/quarantine/keeper.args", ["codec.NewProtoCodec(interfaceRegistry)"; "keys[quarantine.StoreKey]"; "app.BankKeeper";
     "authtypes.NewModuleAddress(quarantine.ModuleName)"]);
  ("ctor.x/quarantine/keeper.assigned_to", ["app.QuarantineKeeper"]);
  (* the bank keeper: blocked addresses = every module account of maccPerms *)
  ("ctor.bank.func", ["bankkeeper.NewBaseKeeper"]);
  ("ctor.bank.args", ["codec.NewProtoCodec(interfaceRegistry)"; "runtime.NewKVStoreService(keys[banktypes.StoreKey])"; "app.AccountKeeper";
     "app.ModuleAccountAddrs()"; "authtypes.NewModuleAddress(govtypes.ModuleName).String()"; "logger"]);
  (* addresses exempt from the marker REQUIRED-ATTRIBUTES check (not from transfer permission): fee
     collector, quarantine holder, gov deposits, distribution, bonded / not-bonded pools *)
  ("marker_req_attr_bypass_addrs.init", ["literal"]);
  ("marker_req_attr_bypass_addrs.elems", ["authtypes.NewModuleAddress(authtypes.FeeCollectorName)";
     "authtypes.NewModuleAddress(quarantine.ModuleName)"; "authtypes.NewModuleAddress(govtypes.ModuleName)";
     "authtypes.NewModuleAddress(distrtypes.ModuleName)"; "authtypes.NewModuleAddress(stakingtypes.BondedPoolName)";
     "authtypes.NewModuleAddress(stakingtypes.NotBondedPoolName)"]);
  ("marker_req_attr_bypass_addrs.each_key_of", []);
  ("marker_req_attr_bypass_addrs.each_key_elem", []);
  ("marker_req_attr_bypass_addrs.passed_to", ["markerkeeper.NewKeeper:reqAttrBypassAddrs -> app.MarkerKeeper"]);
  ("marker_req_attr_bypass_addrs.other_statements", []);
  (* unsanctionable = module address of every maccPerms key, then the quarantine funds holder *)
  ("unsanctionable_addrs.init", ["empty"]);
  ("unsanctionable_addrs.elems", ["authtypes.NewModuleAddress(quarantine.ModuleName)"]);
  ("unsanctionable_addrs.each_key_of", ["maccPerms"]);
  ("unsanctionable_addrs.each_key_elem", ["authtypes.NewModuleAddress(<key>)"]);
  ("unsanctionable_addrs.passed_to", ["sanctionkeeper.NewKeeper:unsanctionableAddrs -> app.SanctionKeeper"]);
  ("unsanctionable_addrs.other_statements", []);
  (* hooks: the sanction keeper is the (only) gov hook, set on the gov keeper that becomes app.GovKeeper *)
  ("hooks.set", ["app.StakingKeeper <- stakingtypes.NewMultiStakingHooks(piohandlers.NewStakingRestrictionHooks(app.StakingKeeper, *piohandlers.DefaultRestrictionOptions), app.DistrKeeper.Hooks(), app.SlashingKeeper.Hooks())";
     "govKeeper <- govtypes.NewMultiGovHooks(app.SanctionKeeper)"]);
  ("gov_hooks", ["app.SanctionKeeper"]);
  ("gov_hooks.on", ["govKeeper -> app.GovKeeper"]);
  ("begin_blockers", ["capabilitytypes.ModuleName"; "minttypes.ModuleName"; "distrtypes.ModuleName"; "slashingtypes.ModuleName";
     "evidencetypes.ModuleName"; "stakingtypes.ModuleName"; "ibcexported.ModuleName"; "markertypes.ModuleName";
     "attributetypes.ModuleName"; "authz.ModuleName"; "triggertypes.ModuleName"]);
  ("end_blockers", ["crisistypes.ModuleName"; "govtypes.ModuleName"; "stakingtypes.ModuleName"; "feegrant.ModuleName";
     "group.ModuleName"; "triggertypes.ModuleName"])
].
