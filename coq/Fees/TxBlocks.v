(** Blocks of several transactions, the mempool's running check state, the fee configuration as part
    of the chain state, and governance proposals (property C08, second layer on top of Fees/TxFees.v).

    Go sources transcribed:
      forked cosmos-sdk baseapp (read)           CheckTx runs the ante handler on the CHECK STATE, which keeps
                                                 the ante effects of every transaction admitted since the last
                                                 Commit (sequence bump, base fee, fee allowance use)  [mempool]
                                                 Commit resets the check state to the committed state; the
                                                 transactions still pending are then offered again with
                                                 CheckTx(Recheck) (ctx.IsCheckTx and ctx.IsReCheckTx both true),
                                                 before any new one                                   [b_recheck]
                                                 FinalizeBlock runs the block's transactions one after the other
                                                 on the running block state                          [trace]
                                                 runTx: "no block gas left to run tx" before anything else;
                                                 consumeBlockGas (GasConsumedToLimit) after every executed
                                                 transaction, and explicitly between the messages and FeeInvoke
                                                 of a successful one                                  [gas_phase]
      cosmossdk.io/store/types/gas.go (read)     basicGasMeter: out of gas iff consumed > limit;
                                                 IsOutOfGas iff consumed >= limit                     [gas_phase]
      x/auth/ante sigverify.go (read)            every signer's signed sequence must equal the account's
                                                 sequence in the state the ante handler runs on       [seq_match]
      x/msgfees/keeper/msg_server.go             AddMsgFeeProposal / UpdateMsgFeeProposal / RemoveMsgFeeProposal /
                                                 UpdateNhashPerUsdMilProposal / UpdateConversionFeeDenomProposal
      x/msgfees/keeper/keeper.go                 AddMsgFee, UpdateMsgFee, RemoveMsgFee, DetermineBips [gov_apply]
      x/msgfees/types/msgs.go                    ValidateBasic of the five proposal messages (run by the router
                                                 before the handler)                                  [gov_apply]
      x/msgfees/keeper/params.go                 GetParams: floor gas price, nhash per usd mil and conversion
                                                 denom are read from the store at every use: they are STATE
                                                 ([ch_cfg]); ConvertDenomToHash reads them through [TxFees.convert]
      x/gov abci.go EndBlocker (read)            a passed proposal's messages run on ONE cache context, which is
                                                 written only if all of them succeed                  [gov_exec]
      internal/handlers/msg_service_router.go    consumeMsgFees returns at once when the context carries no fee
                                                 gas meter: messages executed by governance pay no message fee
                                                                                                      [gov_apply]
    Assumed (exercised by the harness): the gov tally passes exactly when the harness' validator-delegator
    voted yes; deposits are in the bond denom, which is outside the observed denoms; the consensus
    parameter Block.MaxGas is positive.  No proofs in this file. *)
From Coq Require Import ZArith NArith List Bool.
From PV Require Import Exchange.Arith Fees.TxFees.
Import ListNotations.
Open Scope Z_scope.

(** ** The chain: committed fee configuration + accounts *)
Record chain := { ch_cfg : config; ch_st : state }.

(** ** Gas: what decides the phase in which a transaction runs out of gas *)
Inductive gas_input :=
| GObserved (o : gas_outcome)        (* the node's result code said where (GasOk / GasAnte / GasMsgs) *)
| GMeasured (g_ante g_total : Z).    (* gas consumed up to the end of the ante handler / of the messages,
                                        measured on an execution of the same body with ample gas *)

(* [limit]: the transaction's gas limit; [left]: what is left on the block gas meter when it starts;
   [used]: the GasUsed the node reported for this execution *)
Definition gas_phase (limit left used : Z) (g : gas_input) : gas_outcome :=
  if left <=? 0 then GasBlockFull
  else
    match (match g with
           | GObserved o => o
           | GMeasured ga gt => if limit <? ga then GasAnte else if limit <? gt then GasMsgs else GasOk
           end) with
    | GasOk => if left <? Z.min used limit then GasPost else GasOk
    | o => o
    end.

(* what the transaction takes from the block gas meter (GasConsumedToLimit); nothing when it was not run *)
Definition block_gas_after (limit left used : Z) : Z :=
  if left <=? 0 then left else left - Z.min used limit.

(** ** A transaction as offered by a client *)
Record btx := { b_tx : tx;                      (* [t_sig_ok]: the signatures themselves verify; [t_gas_out] is
                                                   not used: the block layer sets it ([inst]) *)
                b_sigseq : list (acct * Z);     (* the sequence number each signer signed for *)
                b_gas : gas_input;
                b_used : Z;                     (* GasUsed reported for the execution in the block *)
                b_forced : bool;                (* put into the block without asking the local mempool *)
                b_hold : bool;                  (* when admitted, it stays pending: the proposer leaves it out of
                                                   this block (it is offered again, as a recheck, in a later step) *)
                b_recheck : bool }.             (* it was admitted in an earlier step and is still pending: this is
                                                   CheckTx(Recheck) after the commit in between.  The ante handler
                                                   runs as for a new transaction (only the cryptographic signature
                                                   check and ValidateBasic are skipped; the sequence comparison,
                                                   the fee sufficiency check, the grant use and the base fee
                                                   deduction on the fresh check state are not): the model treats
                                                   both kinds alike *)

Definition seq_match (s : state) (b : btx) : bool :=
  forallb (fun e => seqn s (fst e) =? snd e) (b_sigseq b).

(* the transaction as the ante handler sees it in state [s] *)
Definition inst (s : state) (o : gas_outcome) (b : btx) : tx :=
  let t := b_tx b in
  {| t_fee := t_fee t; t_gas := t_gas t; t_payer := t_payer t; t_granter := t_granter t;
     t_signers := t_signers t; t_msgs := t_msgs t;
     t_sig_ok := t_sig_ok t && seq_match s b;
     t_gas_out := o |}.

Definition limit_of (b : btx) : Z := t_gas (b_tx b).

(** ** CheckTx on the running check state *)
Definition check_inst (cs : state) (b : btx) : tx := inst cs (gas_phase (limit_of b) 1 0 (b_gas b)) b.

Fixpoint mempool (cfg : config) (cs : state) (bs : list btx) : list bool :=
  match bs with
  | [] => []
  | b :: r =>
      if b_forced b then false :: mempool cfg cs r
      else match ante cfg cs (check_inst cs b) true with
           | Some cs' => true :: mempool cfg cs' r
           | None => false :: mempool cfg cs r
           end
  end.

(** ** Executing the block *)
Record tstep := { ts_pre : state; ts_tx : tx; ts_post : state; ts_res : result }.

Definition deliver_inst (s : state) (left : Z) (b : btx) : tx :=
  inst s (gas_phase (limit_of b) left (b_used b) (b_gas b)) b.

(* [bs]: the offered transactions, each with "is in the block" *)
Fixpoint trace (cfg : config) (s : state) (left : Z) (bs : list (btx * bool)) : list tstep :=
  match bs with
  | [] => []
  | (b, false) :: r => trace cfg s left r
  | (b, true) :: r =>
      let t := deliver_inst s left b in
      let '(s', res) := deliver cfg s t in
      {| ts_pre := s; ts_tx := t; ts_post := s'; ts_res := res |}
        :: trace cfg s' (block_gas_after (limit_of b) left (b_used b)) r
  end.

Definition end_state (s : state) (tr : list tstep) : state := fold_left (fun _ e => ts_post e) tr s.

Definition in_block (bs : list btx) (adm : list bool) : list (btx * bool) :=
  map (fun ba => (fst ba, snd ba && negb (b_hold (fst ba)) || b_forced (fst ba))) (combine bs adm).

(* per offered transaction: RRejected when it is not in the block, else the block's result *)
Fixpoint results (bs : list (btx * bool)) (tr : list tstep) : list result :=
  match bs with
  | [] => []
  | (_, false) :: r => RRejected :: results r tr
  | (_, true) :: r => match tr with
                      | e :: tr' => ts_res e :: results r tr'
                      | [] => RRejected :: results r []
                      end
  end.

Definition block_trace (c : chain) (max_gas : Z) (bs : list btx) : list tstep :=
  trace (ch_cfg c) (ch_st c) max_gas (in_block bs (mempool (ch_cfg c) (ch_st c) bs)).

Definition run_block (c : chain) (max_gas : Z) (bs : list btx) : chain * list result :=
  let tr := block_trace c max_gas bs in
  ({| ch_cfg := ch_cfg c; ch_st := end_state (ch_st c) tr |},
   results (in_block bs (mempool (ch_cfg c) (ch_st c) bs)) tr).

(** ** Governance *)
Inductive gov_msg :=
| GAddFee (ty : mtype) (c : coin) (recip : option acct) (bips : option Z)
| GUpdateFee (ty : mtype) (c : coin) (recip : option acct) (bips : option Z)
| GRemoveFee (ty : mtype)
| GConvDenom (d : denom)
| GNhashPerMil (v : Z)
| GSend (from to : acct) (c : coins).      (* bank MsgSend executed with the gov module account's authority *)

Definition default_msg_fee_bips : Z := 5000.

(* ValidateBips (ValidateBasic) followed by DetermineBips *)
Definition determine_bips (recip : option acct) (bips : option Z) : option Z :=
  match recip, bips with
  | Some _, Some b => if (0 <=? b) && (b <=? 10000) then Some b else None
  | Some _, None => Some default_msg_fee_bips
  | None, Some _ => None                       (* "recipient basis points provided without a recipient" *)
  | None, None => Some 0
  end.

Definition with_schedule (cfg : config) (sch : list fee_entry) : config :=
  {| schedule := sch; floor_price := floor_price cfg; conv_denom := conv_denom cfg;
     usd_denom := usd_denom cfg; nhash_per_mil := nhash_per_mil cfg |}.

Definition with_cfg (c : chain) (cfg : config) : chain := {| ch_cfg := cfg; ch_st := ch_st c |}.

Definition mk_entry (ty : mtype) (c : coin) (recip : option acct) (bp : Z) : fee_entry :=
  {| fe_type := ty; fe_coin := c; fe_recipient := recip; fe_bips := bp |}.

Definition gov_apply (c : chain) (m : gov_msg) : option chain :=
  let cfg := ch_cfg c in
  match m with
  | GAddFee ty co r b =>
      if snd co <=? 0 then None                                         (* ErrInvalidFee *)
      else match determine_bips r b with
           | None => None
           | Some bp =>
               match lookup_fee (schedule cfg) ty with
               | Some _ => None                                         (* ErrMsgFeeAlreadyExists *)
               | None => Some (with_cfg c (with_schedule cfg (schedule cfg ++ [mk_entry ty co r bp])))
               end
           end
  | GUpdateFee ty co r b =>
      if snd co <=? 0 then None
      else match determine_bips r b with
           | None => None
           | Some bp =>
               match lookup_fee (schedule cfg) ty with
               | None => None                                           (* ErrMsgFeeDoesNotExist *)
               | Some _ => Some (with_cfg c (with_schedule cfg
                             (map (fun e => if N.eqb (fe_type e) ty then mk_entry ty co r bp else e) (schedule cfg))))
               end
           end
  | GRemoveFee ty =>
      match lookup_fee (schedule cfg) ty with
      | None => None
      | Some _ => Some (with_cfg c (with_schedule cfg (filter (fun e => negb (N.eqb (fe_type e) ty)) (schedule cfg))))
      end
  | GConvDenom d =>
      Some (with_cfg c {| schedule := schedule cfg; floor_price := floor_price cfg; conv_denom := d;
                          usd_denom := usd_denom cfg; nhash_per_mil := nhash_per_mil cfg |})
  | GNhashPerMil v =>
      if v <? 1 then None
      else Some (with_cfg c {| schedule := schedule cfg; floor_price := floor_price cfg; conv_denom := conv_denom cfg;
                               usd_denom := usd_denom cfg; nhash_per_mil := v |})
  | GSend from to co =>
      (* no fee gas meter in the EndBlocker's context: the router consumes no message fee *)
      if is_zero co then None
      else if N.eqb to collector then None      (* bank MsgSend: the fee collector is a blocked address *)
      else match exec_move (bal (ch_st c)) {| mv_from := from; mv_to := to; mv_coins := co |} with
           | Some b => Some {| ch_cfg := cfg; ch_st := with_bal (ch_st c) b |}
           | None => None
           end
  end.

Fixpoint gov_msgs (c : chain) (ms : list gov_msg) : option chain :=
  match ms with
  | [] => Some c
  | m :: r => match gov_apply c m with Some c' => gov_msgs c' r | None => None end
  end.

(* the EndBlocker at the end of the voting period: (chain afterwards, proposal status is "passed") *)
Definition gov_exec (c : chain) (vote_yes : bool) (ms : list gov_msg) : chain * bool :=
  if vote_yes then match gov_msgs c ms with Some c' => (c', true) | None => (c, false) end
  else (c, false).

(** ** Histories *)
Inductive bop :=
| OBlock (max_gas : Z) (bs : list btx)
| OGov (vote_yes : bool) (ms : list gov_msg)
| OSetCfg (cfg : config)                          (* the harness writes schedule and params directly *)
| OSetBalance (a : acct) (d : denom) (v : Z)
| OSetAllowance (g p : acct) (v : allowance).

Definition bstep (c : chain) (o : bop) : chain * list result :=
  match o with
  | OBlock mg bs => run_block c mg bs
  | OGov v ms => let '(c', ok) := gov_exec c v ms in (c', [if ok then ROk else RFailed])
  | OSetCfg cfg => (with_cfg c cfg, [])
  | OSetBalance a d v => ({| ch_cfg := ch_cfg c; ch_st := fst (step (ch_st c) (OSetBal a d v)) |}, [])
  | OSetAllowance g p v => ({| ch_cfg := ch_cfg c; ch_st := fst (step (ch_st c) (OSetAllow g p v)) |}, [])
  end.

Definition brun (c : chain) (ops : list bop) : chain := fold_left (fun st o => fst (bstep st o)) ops c.

(** ** Specification-level quantities for blocks *)
(* what one executed transaction does to a balance, by its result *)
Definition tx_delta (cfg : config) (e : tstep) (a : acct) (d : denom) : Z :=
  match ts_res e with
  | ROk => spec_ok_delta cfg (ts_tx e) a d
  | RFailed => spec_fail_delta cfg (ts_tx e) a d
  | _ => 0
  end.

(* the fee it is charged *)
Definition tx_charge (cfg : config) (e : tstep) (d : denom) : Z :=
  match ts_res e with
  | ROk => amount_of (t_fee (ts_tx e)) d
  | RFailed => amount_of (base_fee cfg (t_gas (ts_tx e))) d
  | _ => 0
  end.

Definition passed_ante (r : result) : bool := match r with ROk | RFailed => true | _ => false end.

Definition tx_seq_delta (e : tstep) (a : acct) : Z :=
  if passed_ante (ts_res e) && existsb (N.eqb a) (t_signers (ts_tx e)) then 1 else 0.

(* net effect of a proposal's bank sends *)
Definition gov_moves (ms : list gov_msg) : list move :=
  flat_map (fun m => match m with
                     | GSend f t c => [{| mv_from := f; mv_to := t; mv_coins := c |}]
                     | _ => []
                     end) ms.
