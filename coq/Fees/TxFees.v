(** Model of the transaction fee pipeline (property C08): what a signed transaction is charged when
    the node admits it to its mempool (CheckTx) and then executes it in a block.

    Go sources transcribed (function by function, branch for branch):
      internal/antewrapper/handler.go             decorator order (only the decorators that decide
                                                  admission or move coins are modelled, see below)
      internal/antewrapper/tx_gas_limit_decorator.go   TxGasLimitDecorator (gas > 4,000,000 rejected)
      internal/antewrapper/msg_fees_decorator.go  MsgFeesDecorator (CheckTx only),
                                                  EnsureSufficientFloorAndMsgFees            [ensure]
      internal/antewrapper/provenance_fee.go      ProvenanceDeductFeeDecorator.checkDeductBaseFee,
                                                  CalculateBaseFee [base_fee], GetFeePayerUsingFeeGrant
                                                  [use_grant], DeductFees                     [ante]
      internal/antewrapper/fee_gas_meter.go       ConsumeFee / FeeConsumed / FeeConsumedDistributions /
                                                  ConsumeBaseFee                              [meter]
      internal/handlers/msg_service_router.go     consumeMsgFees (every routed message, also those
                                                  dispatched by authz MsgExec)               [route]
      internal/antewrapper/fee_gas_meter.go       ConsumeMsgFee: a handler records a fee of its own on the
                                                  meter AFTER it succeeded and WITHOUT any sufficiency
                                                  check (x/exchange flat fees for creating / accepting a
                                                  payment, keeper/payments.go consumePaymentFee) [r_post]
      internal/handlers/msg_fee_invoker.go        MsgFeeInvoker.Invoke                        [fee_invoke]
      x/msgfees/keeper/keeper.go                  CalculateAdditionalFeesToBePaid [calc], ConvertDenomToHash
                                                  [convert], DeductFeesDistributions         [invoke_moves]
      x/msgfees/types/fee.go                      MsgFeesDistribution.Increase [increase]; SplitCoinByBips is
                                                  [Exchange.Arith.split_by_bips]
      forked cosmos-sdk baseapp.runTx (read)      ante effects are kept when messages or FeeInvoke fail;
                                                  message effects and the sweep are dropped   [deliver]
      cosmossdk.io/x/feegrant BasicAllowance.Accept / Keeper.UseGrantedFees (read)            [use_grant]

    Representation.  Accounts, denoms and message types are interned to [N].  An [sdk.Coins] value is a
    FORMAL SUM: a list of (denom, amount) entries whose meaning is [amount_of] (entries of one denom add
    up); Add is concatenation, SafeSub is concatenation with the negated subtrahend, IsZero / "has a
    negative amount" / IsValid are decided on the per-denom sums.  (The SDK keeps the normal form of the
    same sums; only the sums are ever compared.)  Balances are total functions to [Z].

    Assumed about everything external (exercised by the harness, not modelled):
      - signature verification succeeds iff the harness signed with the right account number and
        sequence ([t_sig_ok]); gas metering: whether the transaction ran out of gas in the ante chain
        or in the messages is an input ([t_gas_out]): it is either observed or, for calibrated
        transactions and for the block gas meter, DECIDED by [Fees/TxBlocks.gas_phase] from measured
        consumption; what each phase does to the state is modelled here ([ante], [deliver]);
      - the bank moves coins exactly when the sender's balance covers them (accounts here have no
        vesting lock, hold, quarantine, sanction or marker restriction); every account that pays exists;
      - amounts stay far below 2^256 (no sdkmath.Int overflow panics);
      - the validator's local min-gas-prices are empty (as in the harness' node), so
        MinGasPricesDecorator admits everything; consensus max gas is not -1.
    No proofs in this file. *)
From Coq Require Import ZArith NArith List Bool Sorting.Mergesort Orders.
From PV Require Import Exchange.Arith.
Import ListNotations.
Open Scope Z_scope.

Definition acct := N.
Definition denom := N.
Definition mtype := N.

(** ** sdk.Coins as formal sums *)
Definition coin := (denom * Z)%type.
Definition coins := list coin.

Fixpoint amount_of (c : coins) (d : denom) : Z :=
  match c with
  | [] => 0
  | (d', v) :: r => (if N.eqb d d' then v else 0) + amount_of r d
  end.

Definition cdenoms (c : coins) : list denom := map fst c.
Definition cneg (c : coins) : coins := map (fun e => (fst e, - snd e)) c.
Definition cadd (a b : coins) : coins := a ++ b.
Definition csub (a b : coins) : coins := a ++ cneg b.            (* SafeSub, result part *)
Definition is_zero (c : coins) : bool := forallb (fun d => amount_of c d =? 0) (cdenoms c).
Definition has_neg (c : coins) : bool := existsb (fun d => amount_of c d <? 0) (cdenoms c).

(** ** The bank: balances and coin movements *)
Definition sheet := acct -> denom -> Z.
Record move := { mv_from : acct; mv_to : acct; mv_coins : coins }.

(* subUnlockedCoins: the coins must be valid (no negative amount) and covered by the balance *)
Definition can_pay (b : sheet) (a : acct) (c : coins) : bool :=
  forallb (fun d => (0 <=? amount_of c d) && (amount_of c d <=? b a d)) (cdenoms c).

Definition apply_move (b : sheet) (m : move) : sheet :=
  fun a d => b a d - (if N.eqb a (mv_from m) then amount_of (mv_coins m) d else 0)
                   + (if N.eqb a (mv_to m) then amount_of (mv_coins m) d else 0).

Definition exec_move (b : sheet) (m : move) : option sheet :=
  if can_pay b (mv_from m) (mv_coins m) then Some (apply_move b m) else None.

Fixpoint exec_moves (b : sheet) (ms : list move) : option sheet :=
  match ms with
  | [] => Some b
  | m :: r => match exec_move b m with Some b' => exec_moves b' r | None => None end
  end.

(** ** Chain state seen by the fee pipeline *)
(* fee allowance of (granter, grantee): None = no grant, Some None = BasicAllowance without spend
   limit, Some (Some l) = BasicAllowance with spend limit l *)
Definition allowance := option (option coins).
Record state := { bal : sheet; seqn : acct -> Z; allow : acct -> acct -> allowance }.

Definition collector : acct := 0%N.          (* the fee collector module account *)

(** ** Configuration: message fee schedule and msgfees params *)
Record fee_entry := { fe_type : mtype; fe_coin : coin; fe_recipient : option acct; fe_bips : Z }.
Record config := { schedule : list fee_entry;         (* one MsgFee per message type URL *)
                   floor_price : coin;                (* params.FloorGasPrice *)
                   conv_denom : denom;                (* params.ConversionFeeDenom *)
                   usd_denom : denom;                 (* "usd" *)
                   nhash_per_mil : Z }.               (* params.NhashPerUsdMil *)

(** ** Transactions *)
(* MsgAssessCustomMsgFeeRequest payload: amount, recipient, recipient basis points ("" = 10000) *)
Record custom := { cu_coin : coin; cu_recipient : option acct; cu_bips : option Z }.

(* what a routed message does once its fee has been consumed *)
Inductive action :=
| ASend (from to : acct) (c : coins)      (* bank MsgSend *)
| ANop (ok : bool)                        (* no coin movement; ok=false: the handler (or the authz
                                             authorization in front of it) fails *)
| AExt (ok : bool) (ms : list move).      (* a handler outside the fee pipeline (x/exchange payments):
                                             ok=false: it fails; else it moves the given coins *)

(* [r_post]: the fee the handler itself records on the fee gas meter once it has succeeded
   (antewrapper.ConsumeMsgFee with recipient ""; [] when there is none) *)
Record routed := { r_type : mtype; r_custom : option custom; r_action : action; r_post : coins }.

(* a top-level message and, for an authz MsgExec, the messages it dispatches through the same
   router, in execution (pre-) order *)
Record tmsg := { m_top : routed; m_nested : list routed }.

(* where the transaction runs out of gas, if at all:
     GasAnte       inside the ante handler (its store branch is dropped: nothing is written)
     GasMsgs       while the messages run (runTx keeps the ante effects, drops the messages')
     GasPost       after the messages succeeded, when runTx charges the block gas meter just before
                   FeeInvoke (consumeBlockGas panics; FeeInvoke itself runs on an infinite gas meter, so
                   this is the only gas failure between the messages and the end of the transaction)
     GasBlockFull  the block gas meter is already exhausted when the transaction starts: runTx returns
                   before the ante handler *)
Inductive gas_outcome := GasOk | GasAnte | GasMsgs | GasPost | GasBlockFull.

Record tx := { t_fee : coins;                 (* declared fee *)
               t_gas : Z;                     (* gas limit *)
               t_payer : acct;                (* fee payer = first signer *)
               t_granter : option acct;       (* fee granter field *)
               t_signers : list acct;
               t_msgs : list tmsg;
               t_sig_ok : bool;
               t_gas_out : gas_outcome }.

Definition routed_all (t : tx) : list routed :=
  flat_map (fun m => m_top m :: m_nested m) (t_msgs t).
Definition routed_top (t : tx) : list routed := map m_top (t_msgs t).

(** ** x/msgfees: CalculateAdditionalFeesToBePaid *)
Record dist := { d_total : coins; d_module : coins; d_recips : list (acct * coin) }.
Definition dist0 : dist := {| d_total := []; d_module := []; d_recips := [] |}.

Definition increase (d : dist) (c : coin) (bips : Z) (r : option acct) : option dist :=
  let '(dn, amt) := c in
  if amt <=? 0 then Some d
  else match r with
       | None => Some {| d_total := (dn, amt) :: d_total d; d_module := (dn, amt) :: d_module d;
                         d_recips := d_recips d |}
       | Some a =>
           match split_by_bips amt bips with
           | None => None
           | Some (rc, rest) =>
               Some {| d_total := (dn, amt) :: d_total d;
                       d_module := if rest =? 0 then d_module d else (dn, rest) :: d_module d;
                       d_recips := (a, (dn, rc)) :: d_recips d |}
           end
       end.

Definition lookup_fee (s : list fee_entry) (t : mtype) : option fee_entry :=
  find (fun e => N.eqb (fe_type e) t) s.

Definition convert (cfg : config) (c : coin) : option coin :=
  let '(dn, amt) := c in
  if N.eqb dn (usd_denom cfg) then Some (conv_denom cfg, amt * nhash_per_mil cfg)
  else if N.eqb dn (conv_denom cfg) then Some c
  else None.

Definition custom_bips (cu : custom) : Z := match cu_bips cu with Some b => b | None => 10000 end.

Definition calc_one (cfg : config) (d : dist) (r : routed) : option dist :=
  match (match lookup_fee (schedule cfg) (r_type r) with
         | Some e => increase d (fe_coin e) (fe_bips e) (fe_recipient e)
         | None => Some d
         end) with
  | None => None
  | Some d1 =>
      match r_custom r with
      | None => Some d1
      | Some cu =>
          match convert cfg (cu_coin cu) with
          | None => None
          | Some c => increase d1 c (custom_bips cu) (cu_recipient cu)
          end
      end
  end.

Fixpoint calc (cfg : config) (d : dist) (rs : list routed) : option dist :=
  match rs with
  | [] => Some d
  | r :: rest => match calc_one cfg d r with Some d1 => calc cfg d1 rest | None => None end
  end.

(** ** Base fee and the sufficiency check *)
Definition base_fee (cfg : config) (gas : Z) : coins :=
  let '(fd, fp) := floor_price cfg in
  if fp * gas =? 0 then [] else [(fd, fp * gas)].

(* EnsureSufficientFloorAndMsgFees *)
Definition ensure (cfg : config) (fee : coins) (gas : Z) (additional : coins) : bool :=
  let req := cadd (base_fee cfg gas) additional in
  if is_zero req then true else negb (has_neg (csub fee req)).

(** ** Fee grants *)
Definition set_allow (s : state) (g p : acct) (v : allowance) : state :=
  {| bal := bal s; seqn := seqn s;
     allow := fun g' p' => if N.eqb g g' && N.eqb p p' then v else allow s g' p' |}.

(* GetFeePayerUsingFeeGrant: who pays, and the state after the allowance was used *)
Definition use_grant (s : state) (t : tx) (fee : coins) : option (state * acct) :=
  match t_granter t with
  | None => Some (s, t_payer t)
  | Some g =>
      if N.eqb g (t_payer t) then Some (s, t_payer t)
      else match allow s g (t_payer t) with
           | None => None                                         (* fee-grant not found *)
           | Some None => Some (s, g)
           | Some (Some lim) =>
               let left := csub lim fee in
               if has_neg left then None                           (* fee limit exceeded *)
               else Some (set_allow s g (t_payer t) (if is_zero left then None else Some (Some left)), g)
           end
  end.

(* the account the fees are taken from *)
Definition fee_source (t : tx) : acct :=
  match t_granter t with
  | Some g => g
  | None => t_payer t
  end.

(** ** The ante chain (CheckTx: [is_check = true]; in a block: false) *)
Definition gas_tx_limit : Z := 4000000.

(* TxGasLimitDecorator.isOnlyGovMsgs: a transaction all of whose top-level messages are x/gov messages
   ("/cosmos.gov." type urls) is exempt from the gas limit.  Message type ids >= 100 denote x/gov
   message types (interning convention of the harness: 100 MsgSubmitProposal, 101 MsgVote). *)
Definition gov_mtype (ty : mtype) : bool := N.leb 100 ty.
Definition only_gov (t : tx) : bool :=
  match t_msgs t with
  | [] => false
  | ms => forallb (fun m => gov_mtype (r_type (m_top m))) ms
  end.

Definition bump_seq (s : state) (signers : list acct) : state :=
  {| bal := bal s;
     seqn := fun a => if existsb (N.eqb a) signers then seqn s a + 1 else seqn s a;
     allow := allow s |}.

Definition with_bal (s : state) (b : sheet) : state := {| bal := b; seqn := seqn s; allow := allow s |}.

Definition base_moves (src : acct) (base : coins) : list move :=
  if is_zero base then [] else [{| mv_from := src; mv_to := collector; mv_coins := base |}].

Definition ante (cfg : config) (s : state) (t : tx) (is_check : bool) : option state :=
  match t_gas_out t with GasAnte => None | _ =>
  if t_gas t <=? 0 then None                                      (* "must provide positive gas" *)
  else if negb (only_gov t) && (gas_tx_limit <? t_gas t) then None   (* TxGasLimitDecorator *)
  else
    match calc cfg dist0 (routed_top t) with
    | None => None
    | Some fd =>
        let base := base_fee cfg (t_gas t) in
        if is_check && negb (ensure cfg (t_fee t) (t_gas t) (d_total fd)) then None   (* MsgFeesDecorator *)
        else
          match use_grant s t base with
          | None => None
          | Some (s1, src) =>
              (* the payer must hold the additional fees of the top-level messages *)
              if negb (forallb (fun d => amount_of (d_total fd) d <=? bal s1 src d) (cdenoms (d_total fd)))
              then None
              else
                match exec_moves (bal s1) (base_moves src base) with     (* DeductFees *)
                | None => None
                | Some b =>
                    if t_sig_ok t then Some (bump_seq (with_bal s1 b) (t_signers t)) else None
                end
          end
    end
  end.

Definition check_tx (cfg : config) (s : state) (t : tx) : bool :=
  match ante cfg s t true with Some _ => true | None => false end.

(** ** The fee gas meter and the message router *)
Record meter := { mt_module : coins;                  (* consumed with recipient "" *)
                  mt_recips : list (acct * coin) }.   (* consumed per recipient *)
Definition meter0 : meter := {| mt_module := []; mt_recips := [] |}.
Definition consumed (m : meter) : coins := mt_module m ++ map snd (mt_recips m).   (* FeeConsumed *)

(* consumeMsgFees followed by the handler *)
Definition route (cfg : config) (t : tx) (st : sheet * meter) (r : routed) : option (sheet * meter) :=
  let '(b, m) := st in
  match calc_one cfg dist0 r with
  | None => None
  | Some fd =>
      let m1 :=
        if is_zero (d_total fd) then Some m
        else if ensure cfg (t_fee t) (t_gas t) (cadd (consumed m) (d_total fd))
             then Some {| mt_module := d_module fd ++ mt_module m; mt_recips := d_recips fd ++ mt_recips m |}
             else None in
      match m1 with
      | None => None
      | Some m' =>
          match (match r_action r with
                 | ANop ok => if ok then Some b else None
                 | ASend from to c =>
                     if is_zero c then None                         (* MsgSend.ValidateBasic *)
                     else exec_move b {| mv_from := from; mv_to := to; mv_coins := c |}
                 | AExt ok ms => if ok then exec_moves b ms else None
                 end) with
          | None => None
          | Some b' =>
              (* ConsumeMsgFee by the handler: no check against the declared fee here *)
              Some (b', if is_zero (r_post r) then m'
                        else {| mt_module := r_post r ++ mt_module m'; mt_recips := mt_recips m' |})
          end
      end
  end.

Fixpoint route_all (cfg : config) (t : tx) (st : sheet * meter) (rs : list routed) : option (sheet * meter) :=
  match rs with
  | [] => Some st
  | r :: rest => match route cfg t st r with Some st' => route_all cfg t st' rest | None => None end
  end.

(** ** FeeInvoke: sweep and distribution *)
Module NOrder <: TotalLeBool.
  Definition t := N.
  Definition leb := N.leb.
  Theorem leb_total : forall a1 a2, leb a1 a2 = true \/ leb a2 a1 = true.
  Proof. intros a1 a2. unfold leb. destruct (N.leb_spec a1 a2); [left|right]; [reflexivity|]. apply N.leb_le. apply N.lt_le_incl. assumption. Qed.
End NOrder.
Module NSort := Sort NOrder.

(* sortedKeys of FeeConsumedDistributions (recipient addresses are interned in address order) *)
Definition recip_keys (m : meter) : list acct := NSort.sort (nodup N.eq_dec (map fst (mt_recips m))).
Definition coins_for (m : meter) (k : acct) : coins :=
  map snd (filter (fun e => N.eqb (fst e) k) (mt_recips m)).

(* DeductFeesDistributions: module share, then each recipient in key order, then the remainder *)
Definition dist_moves (src : acct) (m : meter) : list move :=
  {| mv_from := src; mv_to := collector; mv_coins := mt_module m |}
  :: map (fun k => {| mv_from := src; mv_to := k; mv_coins := coins_for m k |}) (recip_keys m).

Definition sent_of (ms : list move) : coins := flat_map mv_coins ms.

Definition invoke_moves (src : acct) (uncharged : coins) (m : meter) : option (list move) :=
  let dm := dist_moves src m in
  let unsent := csub uncharged (sent_of dm) in
  if has_neg unsent then None
  else Some (dm ++ (if is_zero unsent then [] else [{| mv_from := src; mv_to := collector; mv_coins := unsent |}])).

Definition fee_invoke (cfg : config) (s : state) (t : tx) (base_charged : coins) (m : meter) : option state :=
  let uncharged := csub (t_fee t) base_charged in
  match use_grant s t uncharged with
  | None => None
  | Some (s1, src) =>
      if is_zero uncharged && is_zero (consumed m) then Some s1
      else match invoke_moves src uncharged m with
           | None => None
           | Some ms => match exec_moves (bal s1) ms with
                        | Some b => Some (with_bal s1 b)
                        | None => None
                        end
           end
  end.

(** ** Executing a transaction in a block (runTx, finalize mode) *)
Inductive result := RRejected | RAnteFail | RFailed | ROk.

Definition deliver (cfg : config) (s : state) (t : tx) : state * result :=
  match t_gas_out t with GasBlockFull => (s, RAnteFail) | _ =>      (* "no block gas left to run tx" *)
  match ante cfg s t false with
  | None => (s, RAnteFail)
  | Some s1 =>
      match t_gas_out t with
      | GasMsgs | GasPost => (s1, RFailed)
      | _ =>
          match route_all cfg t (bal s1, meter0) (routed_all t) with
          | None => (s1, RFailed)
          | Some (b2, m) =>
              match fee_invoke cfg (with_bal s1 b2) t (base_fee cfg (t_gas t)) m with
              | None => (s1, RFailed)
              | Some s3 => (s3, ROk)
              end
          end
      end
  end
  end.

(** ** Histories: a transaction is offered to the mempool and, when admitted, executed in the next
    block; between transactions governance may change the configuration and accounts may be funded
    or given fee allowances. *)
Inductive op :=
| OTx (cfg : config) (t : tx)
| OSetBal (a : acct) (d : denom) (v : Z)
| OSetAllow (g p : acct) (v : allowance).

Definition step (s : state) (o : op) : state * result :=
  match o with
  | OTx cfg t => if check_tx cfg s t then deliver cfg s t else (s, RRejected)
  | OSetBal a d v =>
      (with_bal s (fun a' d' => if N.eqb a a' && N.eqb d d' then v else bal s a' d'), ROk)
  | OSetAllow g p v => (set_allow s g p v, ROk)
  end.

Definition run (s : state) (ops : list op) : state := fold_left (fun st o => fst (step st o)) ops s.

(** ** Specification-level quantities (closed forms the theorems and the checker compare against) *)

(* the fee components a routed message incurs: (coin, recipient basis points, recipient) *)
Definition charges_pre (cfg : config) (r : routed) : list (coin * Z * option acct) :=
  (match lookup_fee (schedule cfg) (r_type r) with
   | Some e => if 0 <? snd (fe_coin e) then [(fe_coin e, fe_bips e, fe_recipient e)] else []
   | None => []
   end) ++
  (match r_custom r with
   | Some cu => match convert cfg (cu_coin cu) with
                | Some c => if 0 <? snd c then [(c, custom_bips cu, cu_recipient cu)] else []
                | None => []
                end
   | None => []
   end).
(* ... plus what the handler records itself; the mempool check and the router's running check only
   know [charges_pre] *)
Definition charges (cfg : config) (r : routed) : list (coin * Z * option acct) :=
  charges_pre cfg r ++ map (fun c => (c, 0, None)) (r_post r).

Definition ch_amount (d : denom) (ch : coin * Z * option acct) : Z :=
  let '((dn, amt), _, _) := ch in if N.eqb d dn then amt else 0.
(* the recipient's part of one charge: the floor of its basis-point share *)
Definition ch_share (a : acct) (d : denom) (ch : coin * Z * option acct) : Z :=
  let '((dn, amt), bips, r) := ch in
  match r with
  | Some a' => if N.eqb a a' && N.eqb d dn then amt * bips / 10000 else 0
  | None => 0
  end.
Definition ch_share_any (d : denom) (ch : coin * Z * option acct) : Z :=
  let '((dn, amt), bips, r) := ch in
  match r with
  | Some _ => if N.eqb d dn then amt * bips / 10000 else 0
  | None => 0
  end.

Definition zsum {A} (f : A -> Z) (l : list A) : Z := fold_right (fun x acc => f x + acc) 0 l.

Definition additional (cfg : config) (rs : list routed) (d : denom) : Z :=
  zsum (ch_amount d) (flat_map (charges cfg) rs).
Definition additional_pre (cfg : config) (rs : list routed) (d : denom) : Z :=
  zsum (ch_amount d) (flat_map (charges_pre cfg) rs).
Definition share (cfg : config) (rs : list routed) (a : acct) (d : denom) : Z :=
  zsum (ch_share a d) (flat_map (charges cfg) rs).
Definition shares_total (cfg : config) (rs : list routed) (d : denom) : Z :=
  zsum (ch_share_any d) (flat_map (charges cfg) rs).

(* net effect of the messages' own coin movements *)
Definition msg_moves (rs : list routed) : list move :=
  flat_map (fun r => match r_action r with
                     | ASend f t c => [{| mv_from := f; mv_to := t; mv_coins := c |}]
                     | ANop _ => []
                     | AExt _ ms => ms
                     end) rs.
Definition debit_of (ms : list move) (a : acct) (d : denom) : Z :=
  zsum (fun m => if N.eqb a (mv_from m) then amount_of (mv_coins m) d else 0) ms.
Definition credit_of (ms : list move) (a : acct) (d : denom) : Z :=
  zsum (fun m => if N.eqb a (mv_to m) then amount_of (mv_coins m) d else 0) ms.
Definition msg_net (rs : list routed) (a : acct) (d : denom) : Z :=
  credit_of (msg_moves rs) a d - debit_of (msg_moves rs) a d.

Definition ind (b : bool) (v : Z) : Z := if b then v else 0.

(* what the property says a successful / failed transaction does to every balance *)
Definition spec_ok_delta (cfg : config) (t : tx) (a : acct) (d : denom) : Z :=
  - ind (N.eqb a (fee_source t)) (amount_of (t_fee t) d)
  + share cfg (routed_all t) a d
  + ind (N.eqb a collector) (amount_of (t_fee t) d - shares_total cfg (routed_all t) d)
  + msg_net (routed_all t) a d.
Definition spec_fail_delta (cfg : config) (t : tx) (a : acct) (d : denom) : Z :=
  - ind (N.eqb a (fee_source t)) (amount_of (base_fee cfg (t_gas t)) d)
  + ind (N.eqb a collector) (amount_of (base_fee cfg (t_gas t)) d).

(* the declared fee covers the base fee and the additional fees of the given messages *)
Definition covered (cfg : config) (t : tx) (rs : list routed) : Prop :=
  forall d, amount_of (base_fee cfg (t_gas t)) d + additional cfg rs d <= amount_of (t_fee t) d.
