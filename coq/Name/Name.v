(** Name/Name.v — model of the name module (property C15).

    Transcribed, branch for branch, from /repo:
      x/name/types/name.go      NormalizeName, ValidateName, ValidateNameSegment, IsValidUUID
                                (github.com/google/uuid v1.6.0 Parse: the four accepted lengths)
      x/name/types/keys.go      GetNameKeyPrefix / getNamePrefixByType, GetAddressKeyPrefix
      x/name/types/msgs.go      ValidateBasic of the four messages (run by the message router)
      x/name/keeper/keeper.go   Normalize, GetRecordByName, NameExists, ResolvesTo, addRecord,
                                SetNameRecord, UpdateNameRecord, DeleteRecord, CreateRootName,
                                GetRecordsByAddress / IterateRecords
      x/name/keeper/msg_server.go  BindName, DeleteName, ModifyName, CreateRootName
      x/name/keeper/query_server.go ReverseLookup

    What is modelled and what is assumed:
    - Names are Coq [string]s of bytes.  The model's character classes are ASCII: Go's
      strings.TrimSpace / ToLower / unicode.IsLower / IsDigit agree with [is_space] / [to_lower] /
      [is_lower] / [is_digit] on bytes < 128.  Names containing bytes >= 128 are outside the
      model (the model rejects them; Go accepts e.g. non-ASCII lower-case letters).
    - The store key of a name is  0x03 ++ SHA-256(pre-image)  where the pre-image is the
      concatenation of the space-trimmed segments in REVERSE order WITHOUT separator
      ([name_key_preimage]).  SHA-256 is the section variable [hash]; NOTHING is assumed about
      it except that it is a function.  Every definition and theorem is therefore valid for
      every hash, injective or not; the correspondence run instantiates it with the identity
      (records keyed by pre-image), which differs from the real store only where SHA-256
      itself collides.
    - State = the two key ranges of the name store: records (key ↦ name, owner, restricted
      flag) and the address index ((owner, key) ↦ copy of the record).  The 0x03 / 0x05 / 0x06
      prefixes only keep the ranges apart and are not modelled; an address is an abstract id
      ([N]; [gov_authority] = 0 is the governance module account), always well-formed (20 or 32
      bytes), and the Go string comparison of bech32 addresses is equality of ids.
    - Store iteration order (by hash) is not modelled: listings are compared as sorted lists.
    - DeleteName finally calls attribute.PurgeAttribute, which fails when the signer has no
      account; the model assumes every signer has an account and there are no attributes under
      the name (the harness creates the accounts).  Events, telemetry, gas: not modelled.
    - A failed message returns the OLD state (transaction rollback, SDK machinery). *)
From Coq Require Import Arith NArith List String Ascii Bool.
Import ListNotations.
Open Scope string_scope.
Open Scope list_scope.

(** * Characters and strings *)

Definition code (c : ascii) : N := N_of_ascii c.
Definition in_range (lo hi : N) (c : ascii) : bool := (lo <=? code c)%N && (code c <=? hi)%N.
Definition is_space (c : ascii) : bool := in_range 9 13 c || (code c =? 32)%N.
Definition is_upper (c : ascii) : bool := in_range 65 90 c.
Definition is_lower (c : ascii) : bool := in_range 97 122 c.
Definition is_digit (c : ascii) : bool := in_range 48 57 c.
Definition is_hex (c : ascii) : bool := is_digit c || in_range 97 102 c || in_range 65 70 c.
Definition is_dash (c : ascii) : bool := (code c =? 45)%N.
Definition is_dot (c : ascii) : bool := (code c =? 46)%N.
Definition lower_char (c : ascii) : ascii := if is_upper c then ascii_of_N (code c + 32) else c.

Fixpoint to_lower (s : string) : string :=
  match s with
  | EmptyString => EmptyString
  | String c r => String (lower_char c) (to_lower r)
  end.

Definition is_empty (s : string) : bool := match s with EmptyString => true | _ => false end.

(** strings.TrimLeft / TrimRight with a character class *)
Fixpoint trim_left_by (f : ascii -> bool) (s : string) : string :=
  match s with
  | EmptyString => EmptyString
  | String c r => if f c then trim_left_by f r else s
  end.

Fixpoint trim_right_by (f : ascii -> bool) (s : string) : string :=
  match s with
  | EmptyString => EmptyString
  | String c r =>
      let r' := trim_right_by f r in
      if f c && is_empty r' then EmptyString else String c r'
  end.

(** strings.TrimSpace *)
Definition trim (s : string) : string := trim_right_by is_space (trim_left_by is_space s).

(** strings.Split(s, "."): never empty; "" gives [""] *)
Fixpoint split_dots (s : string) : list string :=
  match s with
  | EmptyString => [EmptyString]
  | String c r =>
      if is_dot c then EmptyString :: split_dots r
      else match split_dots r with
           | h :: t => String c h :: t
           | [] => [String c EmptyString]
           end
  end.

(** strings.Join(l, ".") *)
Definition join_dots (l : list string) : string := String.concat "." l.

Fixpoint chars (s : string) : list ascii :=
  match s with
  | EmptyString => []
  | String c r => c :: chars r
  end.

Definition slen (s : string) : N := N.of_nat (String.length s).

Definition count_by (f : ascii -> bool) (s : string) : N := N.of_nat (List.length (filter f (chars s))).

(** * Validity (types/name.go) *)

(** The 36-character form xxxxxxxx-xxxx-xxxx-xxxx-xxxxxxxxxxxx, examined on the first 36
    characters of [l] only (uuid.Parse looks at nothing beyond them). *)
Definition zero_char : ascii := ascii_of_N 0.
Definition uuid36 (l : list ascii) : bool :=
  (36 <=? List.length l)%nat &&
  forallb (fun i =>
             let c := nth i l zero_char in
             if (Nat.eqb i 8 || Nat.eqb i 13 || Nat.eqb i 18 || Nat.eqb i 23) then is_dash c else is_hex c)
          (seq 0 36).

(** uuid.Parse(s) succeeds *)
Definition is_uuid (s : string) : bool :=
  let l := chars s in
  let n := List.length l in
  if Nat.eqb n 36 then uuid36 l
  else if Nat.eqb n 45 then String.eqb (to_lower (substring 0 9 s)) "urn:uuid:" && uuid36 (skipn 9 l)
  else if Nat.eqb n 38 then uuid36 (skipn 1 l)
  else if Nat.eqb n 32 then forallb is_hex l
  else false.

(** ValidateNameSegment *)
Definition valid_segment (seg : string) : bool :=
  is_uuid seg ||
  ((count_by is_dash seg <=? 1)%N &&
   forallb (fun c => is_dash c || is_lower c || is_digit c) (chars seg)).

(** NormalizeName *)
Definition normalize_name (name : string) : string :=
  join_dots (map (fun seg => to_lower (trim seg)) (split_dots name)).

(** IsValidName (on an already normalised name) *)
Definition is_valid_name (name : string) : bool := forallb valid_segment (split_dots name).

Record params := { p_min_seg : N; p_max_seg : N; p_max_levels : N }.
Definition default_params : params := {| p_min_seg := 2; p_max_seg := 32; p_max_levels := 16 |}.

(** Keeper.Normalize: [None] = error *)
Definition normalize (p : params) (name : string) : option string :=
  let n := normalize_name name in
  if negb (is_valid_name n) then None
  else
    let segs := split_dots n in
    if forallb (fun seg => (p_min_seg p <=? slen seg)%N && ((slen seg <=? p_max_seg p)%N || is_uuid seg)) segs
       && (N.of_nat (List.length segs) <=? p_max_levels p)%N
    then Some n else None.

(** A valid name in storage format: what the property's "valid normalized name" means. *)
Definition valid (p : params) (name : string) : Prop := normalize p name = Some name.

(** * Store key (types/keys.go) *)

(** What getNamePrefixByType writes into SHA-256; [None] = the function returns an error. *)
Definition name_key_preimage (name : string) : option string :=
  if is_empty (trim name) then None
  else
    let comps := map trim (split_dots name) in
    if existsb is_empty comps then None
    else Some (String.concat "" (rev comps)).

(** * State *)

Definition addr := N.
Definition gov_authority : addr := 0%N.

Record record := { r_name : string; r_addr : addr; r_restricted : bool }.

(** association lists: first match wins; [aset] removes older bindings *)
Section AMap.
  Variables K V : Type.
  Variable eqb : K -> K -> bool.
  Fixpoint aget (m : list (K * V)) (k : K) : option V :=
    match m with
    | [] => None
    | (k', v) :: r => if eqb k' k then Some v else aget r k
    end.
  Definition adel (m : list (K * V)) (k : K) : list (K * V) :=
    filter (fun kv => negb (eqb (fst kv) k)) m.
  Definition aset (m : list (K * V)) (k : K) (v : V) : list (K * V) := (k, v) :: adel m k.
  Definition ahas (m : list (K * V)) (k : K) : bool :=
    match aget m k with Some _ => true | None => false end.
End AMap.
Arguments aget {K V} eqb m k.
Arguments adel {K V} eqb m k.
Arguments aset {K V} eqb m k v.
Arguments ahas {K V} eqb m k.

Definition ikey := (addr * string)%type.
Definition ikey_eqb (x y : ikey) : bool := N.eqb (fst x) (fst y) && String.eqb (snd x) (snd y).

Record state := {
  st_recs : list (string * record);      (* name key ↦ record *)
  st_idx : list (ikey * record)          (* (owner, name key) ↦ copy of the record *)
}.
Definition init : state := {| st_recs := []; st_idx := [] |}.

Inductive result := Ok | Err.

Inductive op :=
| OpCreateRoot (signer : addr) (name : string) (owner : addr) (restricted : bool)
| OpBind (parent : string) (signer : addr) (child : string) (owner : addr) (restricted : bool)
| OpModify (signer : addr) (name : string) (owner : addr) (restricted : bool)
| OpDelete (name : string) (signer : addr).

Section Keeper.
  Variable hash : string -> string.   (* SHA-256; assumed only to be a function *)
  Variable p : params.

  (** GetNameKeyPrefix *)
  Definition name_key (name : string) : option string :=
    match name_key_preimage name with Some pre => Some (hash pre) | None => None end.

  Definition rget (s : state) (k : string) : option record := aget String.eqb (st_recs s) k.
  Definition iget (s : state) (k : ikey) : option record := aget ikey_eqb (st_idx s) k.

  (** GetRecordByName: the stored name is never compared with the queried one *)
  Definition get_record (s : state) (name : string) : option record :=
    match name_key name with Some k => rget s k | None => None end.

  Definition resolves_to (s : state) (name : string) (a : addr) : bool :=
    match get_record s name with Some r => N.eqb (r_addr r) a | None => false end.

  Definition name_exists (s : state) (name : string) : bool :=
    match name_key name with Some k => ahas String.eqb (st_recs s) k | None => false end.

  (** ReverseLookup / GetRecordsByAddress: prefix scan of the index for [a], filtered on the
      address inside the value *)
  Definition records_of (s : state) (a : addr) : list record :=
    map snd (filter (fun kv => N.eqb (fst (fst kv)) a && N.eqb (r_addr (snd kv)) a) (st_idx s)).
  Definition reverse_lookup (s : state) (a : addr) : list string := map r_name (records_of s a).

  (** addRecord *)
  Definition add_record (s : state) (name : string) (a : addr) (restr modifiable : bool) : option state :=
    match name_key name with
    | None => None
    | Some k =>
        if ahas String.eqb (st_recs s) k && negb modifiable then None
        else if is_empty (trim name) then None                      (* record.Validate *)
        else
          let r := {| r_name := name; r_addr := a; r_restricted := restr |} in
          Some {| st_recs := aset String.eqb (st_recs s) k r;
                  st_idx := aset ikey_eqb (st_idx s) (a, k) r |}
    end.

  (** SetNameRecord *)
  Definition set_name_record (s : state) (name : string) (a : addr) (restr : bool) : option state :=
    match normalize p name with
    | None => None
    | Some n => add_record s n a restr false
    end.

  (** UpdateNameRecord *)
  Definition update_name_record (s : state) (name : string) (a : addr) (restr : bool) : option state :=
    match normalize p name with
    | None => None
    | Some n =>
        let s1 :=
          match get_record s n with
          | Some ex =>
              if N.eqb (r_addr ex) a then Some s
              else match name_key n with
                   | Some k => Some {| st_recs := st_recs s; st_idx := adel ikey_eqb (st_idx s) (r_addr ex, k) |}
                   | None => None
                   end
          | None => Some s
          end in
        match s1 with
        | Some s1 => add_record s1 n a restr true
        | None => None
        end
    end.

  (** DeleteRecord *)
  Definition delete_record (s : state) (name : string) : option state :=
    match get_record s name with
    | None => None
    | Some r =>
        match name_key name with
        | None => None
        | Some k => Some {| st_recs := adel String.eqb (st_recs s) k;
                            st_idx := adel ikey_eqb (st_idx s) (r_addr r, k) |}
        end
    end.

  (** Keeper.CreateRootName: every missing suffix of the name, shortest first, gets the record *)
  Definition create_root_names (s : state) (name : string) (owner : addr) (restr : bool) : option state :=
    snd (fold_left
      (fun (acc : string * option state) seg =>
         let '(n, os) := acc in
         let n' := trim_right_by is_dot (seg ++ "." ++ n) in
         match os with
         | None => (n', None)
         | Some s1 =>
             match get_record s1 n' with
             | Some _ => (n', Some s1)
             | None => (n', set_name_record s1 n' owner restr)
             end
         end)
      (rev (split_dots name)) (EmptyString, Some s)).

  Definition blank (s : string) : bool := is_empty (trim s).
  Definition has_dot (s : string) : bool := existsb is_dot (chars s).

  (** msgServer.BindName (after MsgBindNameRequest.ValidateBasic); the signer is Parent.Address *)
  Definition bind (s : state) (parent : string) (signer : addr) (child : string) (owner : addr) (restr : bool)
    : option state :=
    if blank parent || blank child || has_dot child then None
    else
      match get_record s parent with
      | None => None
      | Some prec =>
          if r_restricted prec && negb (resolves_to s parent signer) then None
          else
            match normalize p (child ++ "." ++ parent) with
            | None => None
            | Some name =>
                if name_exists s name then None
                else set_name_record s name owner restr
            end
      end.

  (** msgServer.DeleteName; the signer is Record.Address *)
  Definition delete (s : state) (name : string) (signer : addr) : option state :=
    if blank name then None
    else
      match normalize p name with
      | None => None
      | Some n =>
          if negb (name_exists s n) then None
          else if negb (resolves_to s n signer) then None
          else delete_record s n
      end.

  (** msgServer.ModifyName; the signer is Authority.  The first lookup uses the name as given,
      UpdateNameRecord then works on the normalised name. *)
  Definition modify (s : state) (signer : addr) (name : string) (owner : addr) (restr : bool) : option state :=
    if blank name then None
    else
      match get_record s name with
      | None => None
      | Some ex =>
          if negb (N.eqb signer gov_authority) && negb (N.eqb signer (r_addr ex)) then None
          else update_name_record s name owner restr
      end.

  (** msgServer.CreateRootName; the signer is Authority *)
  Definition create_root (s : state) (signer : addr) (name : string) (owner : addr) (restr : bool) : option state :=
    if blank name then None
    else if negb (N.eqb signer gov_authority) then None
    else
      match get_record s name with
      | Some _ => None
      | None => create_root_names s name owner restr
      end.

  Definition exec (s : state) (o : op) : option state :=
    match o with
    | OpCreateRoot signer name owner restr => create_root s signer name owner restr
    | OpBind parent signer child owner restr => bind s parent signer child owner restr
    | OpModify signer name owner restr => modify s signer name owner restr
    | OpDelete name signer => delete s name signer
    end.

  Definition step (s : state) (o : op) : state * result :=
    match exec s o with
    | Some s' => (s', Ok)
    | None => (s, Err)
    end.

  Definition run (ops : list op) : state := fold_left (fun s o => fst (step s o)) ops init.
End Keeper.

(** * Derived notions used by the widened property statements (no new behaviour) *)

(** The direct parent of a name: everything after the first dot ([None] for a root).  The
    property's "bound under a restricted parent only by that parent's owner" is judged on the
    direct parent of the RESULTING full name, however a message split it into record and parent. *)
Definition parent_of (name : string) : option string :=
  match split_dots name with
  | _ :: ((_ :: _) as t) => Some (join_dots t)
  | _ => None
  end.

(** The documented rule for "valid name in storage format", by cases (types/name.go doc comments
    + Keeper.Normalize): at most [max_levels] segments; every segment has at least [min] bytes and is
    - UUID-shaped (one of the four spellings uuid.Parse accepts), in normal form (lower case, no
      surrounding white space) — of ANY length above the minimum, or
    - made of lower-case letters, digits and at most one dash, and at most [max] bytes long. *)
Definition plain_char (c : ascii) : bool := is_dash c || is_lower c || is_digit c.
Definition is_normal (seg : string) : bool := String.eqb (to_lower (trim seg)) seg.
Definition doc_segment (p : params) (seg : string) : bool :=
  (p_min_seg p <=? slen seg)%N &&
  ((is_uuid seg && is_normal seg)
   || (forallb plain_char (chars seg) && (count_by is_dash seg <=? 1)%N && (slen seg <=? p_max_seg p)%N)).
Definition doc_valid (p : params) (name : string) : bool :=
  (N.of_nat (List.length (split_dots name)) <=? p_max_levels p)%N &&
  forallb (doc_segment p) (split_dots name).
