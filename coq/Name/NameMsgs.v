(** Name/NameMsgs.v — the full message surface of the name module (property C15, deepening).

    Name/Name.v models the four name messages under FIXED parameters.  This file adds what
    changes the parameters and what writes records without a message:

      x/name/keeper/msg_server.go  UpdateParams (ValidateAuthority, SetParams: NO validation of the
                                   values — min > max, 0 levels … are all accepted)
      x/name/keeper/params.go      GetParams / SetParams (one store entry, read by Normalize on
                                   every call: the limits in force are those of the LAST update)
      x/name/keeper/genesis.go     InitGenesis: SetParams, then SetNameRecord for every binding in
                                   order; any error is a panic (the whole import is void)

    What is modelled and what is assumed:
    - A state is the parameters in force, the [allow_unrestricted_names] flag and the name store.
      The flag is stored and returned by the Params query and read by NOTHING ELSE (no handler
      consults it): [pexec] never looks at [ps_allow].
    - [MOp o] runs one of the four messages of Name.v under the parameters in force.
    - [MParams signer p allow]: MsgUpdateParams; accepted iff the signer is the governance
      authority (Keeper.IsAuthority compares the bech32 strings case-insensitively; addresses are
      abstract ids here).
    - [MGenesis p allow bs]: Keeper.InitGenesis on top of the CURRENT store (on a fresh chain the
      store is empty; the harness calls it on a store that holds records as well).  Addresses of
      bindings are well-formed (a malformed bech32 string panics before anything is written and
      is not modelled).  GenesisState.Validate is not called by InitGenesis and is not modelled.
    - A failed message / a panicking import returns the OLD state. *)
From Coq Require Import Arith NArith List String Ascii Bool.
From PV Require Export Name.Name.
Import ListNotations.
Open Scope string_scope.
Open Scope list_scope.

Record pstate := { ps_p : params; ps_allow : bool; ps_s : state }.

(** a chain whose name store is empty *)
Definition pstart (p : params) (allow : bool) : pstate := {| ps_p := p; ps_allow := allow; ps_s := init |}.

Definition binding := (string * addr * bool)%type.   (* name as written in genesis, owner, restricted *)

Inductive msg :=
| MOp (o : op)
| MParams (signer : addr) (p : params) (allow : bool)
| MGenesis (p : params) (allow : bool) (bs : list binding).

Section Msgs.
  Variable hash : string -> string.

  (** the loop of InitGenesis: [None] = panic *)
  Definition import_bindings (p : params) (s : state) (bs : list binding) : option state :=
    fold_left (fun (acc : option state) (b : binding) =>
                 match acc with
                 | Some s1 => let '(n, a, r) := b in set_name_record hash p s1 n a r
                 | None => None
                 end) bs (Some s).

  Definition pexec (ps : pstate) (m : msg) : option pstate :=
    match m with
    | MOp o =>
        match exec hash (ps_p ps) (ps_s ps) o with
        | Some s' => Some {| ps_p := ps_p ps; ps_allow := ps_allow ps; ps_s := s' |}
        | None => None
        end
    | MParams signer p allow =>
        if N.eqb signer gov_authority then Some {| ps_p := p; ps_allow := allow; ps_s := ps_s ps |} else None
    | MGenesis p allow bs =>
        match import_bindings p (ps_s ps) bs with
        | Some s' => Some {| ps_p := p; ps_allow := allow; ps_s := s' |}
        | None => None
        end
    end.

  Definition pstep (ps : pstate) (m : msg) : pstate * result :=
    match pexec ps m with
    | Some ps' => (ps', Ok)
    | None => (ps, Err)
    end.

  Definition prun_from (ps : pstate) (ms : list msg) : pstate := fold_left (fun s m => fst (pstep s m)) ms ps.
  Definition prun (p : params) (allow : bool) (ms : list msg) : pstate := prun_from (pstart p allow) ms.
End Msgs.

(** the prefix store of address [a] in the by-address index, as ReverseLookup iterates it:
    (name key, record copy), in store order *)
Definition idx_view (s : state) (a : addr) : list (string * record) :=
  map (fun kv : ikey * record => (snd (fst kv), snd kv))
      (filter (fun kv : ikey * record => N.eqb (fst (fst kv)) a) (st_idx s)).

(** the same history with every allow_unrestricted_names flag replaced *)
Definition set_allow (b : bool) (m : msg) : msg :=
  match m with
  | MOp o => MOp o
  | MParams signer p _ => MParams signer p b
  | MGenesis p _ bs => MGenesis p b bs
  end.
