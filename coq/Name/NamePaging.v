(** Name/NamePaging.v — the by-address index at byte level and the paged ReverseLookup query
    (property C15, deepening).

    Transcribed from
      x/name/types/keys.go           GetAddressKeyPrefix: 0x05 ‖ len(addr) ‖ addr   (address.MustLengthPrefix;
                                     the index key of a record is that ‖ name key)
      x/name/keeper/query_server.go  ReverseLookup: prefix store of GetAddressKeyPrefix(addr), then
                                     query.FilteredPaginate with hit = (record.Address == request.Address)
      cosmos-sdk types/query/filtered_pagination.go  FilteredPaginate, forward iteration:
        - with a key:    iterate from the key; when [limit] hits have been seen, the key of the NEXT
                         entry (hit or not) is the next key;
        - without a key: hits number [offset .. offset+limit) are accumulated; the key of hit
                         number [offset+limit] (0-based) is the next key; with count_total the loop
                         runs to the end and reports the number of hits.

    What is modelled and what is assumed:
    - [l] is the content of the address's prefix store in iteration order: (key below the prefix,
      decoded record).  Keys are pairwise different ([NoDup] in the theorems).  The iterator
      "from key k" is the suffix of [l] that starts at the entry whose key is [k]: that is what
      a store iterator returns when [k] is the key of an entry, which holds for every next key
      handed out by the previous page as long as the store is not written in between.
    - limit >= 1 (a limit of 0 is replaced by 100 in initPageRequestDefaults); uint64 wrap-around
      of offset+limit is not modelled (offsets are small); reverse iteration is not modelled
      (the harness checks reverse paging with the property checker only).
    - Address bytes are [list N] with every element < 256; MustLengthPrefix panics above 255
      bytes (VerifyAddressFormat refuses such addresses earlier). No proofs in this file. *)
From Coq Require Import Arith NArith List Bool.
Import ListNotations.
Open Scope list_scope.

(** * Index key prefix of an address *)
Definition addr_key_prefix (a : list N) : list N := 5%N :: N.of_nat (length a) :: a.

Fixpoint is_prefix (p k : list N) : bool :=
  match p, k with
  | [], _ => true
  | x :: p', y :: k' => N.eqb x y && is_prefix p' k'
  | _ :: _, [] => false
  end.

(** * FilteredPaginate, forward *)
Section Paging.
  Variables K A : Type.
  Variable keqb : K -> K -> bool.
  Variable hit : A -> bool.
  Notation view := (list (K * A)).

  (** store iterator starting at key [k] *)
  Fixpoint from_key (l : view) (k : K) : view :=
    match l with
    | [] => []
    | (k', v) :: r => if keqb k' k then l else from_key r k
    end.

  (** the loop taken when the request carries a key *)
  Fixpoint fp_key_loop (it : view) (num_hits limit : nat) : list A * option K :=
    match it with
    | [] => ([], None)
    | (k, v) :: r =>
        if Nat.eqb num_hits limit then ([], Some k)
        else if hit v then
          let '(acc, nk) := fp_key_loop r (S num_hits) limit in (v :: acc, nk)
        else fp_key_loop r num_hits limit
    end.

  (** the loop taken without a key: accumulated hits, next key, number of hits seen *)
  Fixpoint fp_off_loop (it : view) (num_hits offset end_ : nat) (count_total : bool) (next : option K)
    : list A * option K * nat :=
    match it with
    | [] => ([], next, num_hits)
    | (k, v) :: r =>
        let accumulate := Nat.leb offset num_hits && Nat.ltb num_hits end_ in
        let num_hits' := if hit v then S num_hits else num_hits in
        let keep := if hit v && accumulate then [v] else [] in
        if Nat.eqb num_hits' (S end_) then
          let next' := match next with None => Some k | Some _ => next end in
          if count_total then
            let '(acc, nk, n) := fp_off_loop r num_hits' offset end_ count_total next' in (keep ++ acc, nk, n)
          else (keep, next', num_hits')
        else
          let '(acc, nk, n) := fp_off_loop r num_hits' offset end_ count_total next in (keep ++ acc, nk, n)
    end.

  Record page := { pg_items : list A; pg_next : option K; pg_total : nat }.

  Definition filtered_paginate (l : view) (key : option K) (offset limit : nat) (count_total : bool) : page :=
    match key with
    | Some k =>
        let '(acc, nk) := fp_key_loop (from_key l k) 0 limit in
        {| pg_items := acc; pg_next := nk; pg_total := 0 |}
    | None =>
        let '(acc, nk, n) := fp_off_loop l 0 offset (offset + limit) count_total None in
        {| pg_items := acc; pg_next := nk; pg_total := if count_total then n else 0 |}
    end.

  (** a client following next keys from the first page; [None] = out of fuel *)
  Fixpoint follow_keys (fuel : nat) (l : view) (key : option K) (limit : nat) : option (list (list A)) :=
    match fuel with
    | O => None
    | S f =>
        let pg := filtered_paginate l key 0 limit false in
        match pg_next pg with
        | None => Some [pg_items pg]
        | Some k => option_map (cons (pg_items pg)) (follow_keys f l (Some k) limit)
        end
    end.

  (** a client asking for offsets 0, limit, 2*limit, … until a page has no next key *)
  Fixpoint follow_offsets (fuel : nat) (l : view) (offset limit : nat) : option (list (list A)) :=
    match fuel with
    | O => None
    | S f =>
        let pg := filtered_paginate l None offset limit false in
        match pg_next pg with
        | None => Some [pg_items pg]
        | Some _ => option_map (cons (pg_items pg)) (follow_offsets f l (offset + limit) limit)
        end
    end.
End Paging.

Arguments from_key {K A}.
Arguments fp_key_loop {K A}.
Arguments fp_off_loop {K A}.
Arguments filtered_paginate {K A}.
Arguments follow_keys {K A}.
Arguments follow_offsets {K A}.
Arguments pg_items {K A}.
Arguments pg_next {K A}.
Arguments pg_total {K A}.
