(** Model of the quarantine module together with the part of the bank it drives (property C07).

    Go sources transcribed here (function by function):
      x/quarantine/keeper/keeper.go           SetOptIn, SetOptOut, IsQuarantinedAddr, SetAutoResponse,
                                              GetAutoResponse, IsAutoAccept, IsAutoDecline,
                                              SetQuarantineRecord, GetQuarantineRecord,
                                              GetQuarantineRecords, AddQuarantinedCoins,
                                              AcceptQuarantinedFunds, DeclineQuarantinedFunds,
                                              getQuarantineRecordSuffixes, add/deleteQuarantineRecordSuffixIndexes
      x/quarantine/keeper/send_restriction.go SendRestrictionFn
      x/quarantine/keeper/msg_server.go       OptIn, OptOut, Accept, Decline, UpdateAutoResponses
      x/quarantine/msgs.go                    ValidateBasic of the five messages
      x/quarantine/quarantine.go              findAddresses, AcceptFrom, DeclineFrom, IsFullyAccepted,
                                              GetAllFromAddrs, QuarantineRecordSuffixIndex.Simplify
      x/quarantine/keys.go                    CreateRecordKey / createRecordSuffix
      x/quarantine/keeper/genesis.go          InitGenesis (state construction and the holder-covers-records
                                              check, see [init_genesis])
      forked cosmos-sdk x/bank/keeper         msgServer.Send, msgServer.MultiSend, SendCoins,
                                              InputOutputCoinsProv (restriction once per input/output
                                              pair), subUnlockedCoins, addCoins

    Assumed about what is external:
      - addresses and denoms are interned to [positive]; denoms are numbered in the lexical order
        of their strings so that "sorted coins" means the same thing on both sides.  Account
        addresses may be 1..255 bytes long and createRecordSuffix cuts a SINGLE sender address that
        is longer than 32 bytes down to its first 32 bytes, so the interning keeps that structure:
        an id below 1000 is an address of at most 32 bytes, an id [1000 * c + j] is an address longer
        than 32 bytes whose first 32 bytes have the id [c] ([c] is the id of the 32-byte account
        with exactly those bytes when there is one, otherwise an id no account has); [trunc] is
        that cut.  Receivers and suffix-index keys carry the full (length-prefixed) address;
      - the record suffix of several senders is SHA-256 of the sorted concatenated FULL addresses;
        the model uses the sorted address list itself (collision freedom of the hash; a hash is 32
        bytes long and therefore never cut).  A single sender's suffix is [trunc] of the address.
        GetQuarantineRecords passes every looked-up suffix (index entries and the named senders
        themselves, de-duplicated on their full bytes) through CreateRecordKey again, which cuts
        a named sender longer than 32 bytes: [key_sfx].  Index entries are always hashes of two
        or more senders; an entry of another shape cannot exist and [idx_get] ignores it;
      - Simplify sorts the suffix list; the model only removes duplicates / the entries to remove.
        The order in which AcceptQuarantinedFunds / DeclineQuarantinedFunds walk the records cannot
        be observed: records have distinct keys, each record is handled on its own, and an error
        rolls the whole message back;
      - sdk.Coins is a list (denom, amount) read through [amt] (sum per denom); Coins.Add is list
        append.  Validity of message coins (sorted, no duplicate, positive, non-empty) is checked
        where Go checks it;
      - accounts carry no locked coins (no vesting, no holds), every denom is send-enabled, nobody
        is sanctioned: the sanction send restriction lets every transfer through unchanged.  The
        quarantine holder is not a blocked address (it is not in maccPerms);
      - the marker send restriction (x/marker/keeper/send_restrictions.go SendRestrictionFn /
        validateSendDenom) runs BEFORE the quarantine one (app wiring, Properties/Wiring.v) and is
        modelled for the markers the harness creates: [s_xfer] lists the denoms that have an ACTIVE
        RESTRICTED marker without required attributes, without send-deny entries and without
        transfer agents in the context, each with the addresses that hold Access_Transfer on it.
        A transfer whose coins contain such a denom passes iff the sender has Transfer access or is a
        required-attribute bypass address; of the accounts in play only the quarantine holder is
        one (app.go markerReqAttrBypassAddrs, checked by the wiring obligations), which is what
        lets the holder pay restricted coins out on accept.  No account in play is a marker account
        or the fee collector.  The marker restriction never changes the destination.  Denoms not in
        [s_xfer] have no marker (or a plain coin marker): passed through.  [s_xfer] is constant: no
        operation of the model changes markers;
      - an operation that returns an error or panics leaves the state as it was ([step] returns the
        old state).
    No proofs in this file. *)
From Coq Require Import ZArith PArith List Bool.
Import ListNotations.
Open Scope Z_scope.

Definition addr := positive.
Definition denom := positive.
Definition coins := list (denom * Z).

(** ** Coins *)
Fixpoint amt (c : coins) (d : denom) : Z :=
  match c with
  | [] => 0
  | e :: r => (if Pos.eqb (fst e) d then snd e else 0) + amt r d
  end.

Definition denoms (c : coins) : list denom := map fst c.

(* Coins.IsValid (strictly sorted denoms, positive amounts) *)
Fixpoint sorted_pos (c : coins) : bool :=
  match c with
  | [] => true
  | e :: r =>
      (0 <? snd e) &&
      (match r with [] => true | e' :: _ => Pos.ltb (fst e) (fst e') end) &&
      sorted_pos r
  end.

(* IsValid && IsAllPositive: the latter is false on the empty set *)
Definition coins_valid (c : coins) : bool :=
  match c with [] => false | _ => sorted_pos c end.

(** ** Lists of addresses *)
Definition mem (a : addr) (l : list addr) : bool := existsb (Pos.eqb a) l.

Fixpoint insert (a : positive) (l : list positive) : list positive :=
  match l with
  | [] => [a]
  | b :: r => if Pos.leb a b then a :: l else b :: insert a r
  end.
Fixpoint sort (l : list positive) : list positive :=
  match l with [] => [] | a :: r => insert a (sort r) end.

Fixpoint addrs_eqb (x y : list addr) : bool :=
  match x, y with
  | [], [] => true
  | a :: x', b :: y' => Pos.eqb a b && addrs_eqb x' y'
  | _, _ => false
  end.

(** ** Generic association lists *)
Section Assoc.
  Context {K V : Type} (eqb : K -> K -> bool).
  Fixpoint aget (k : K) (l : list (K * V)) : option V :=
    match l with
    | [] => None
    | e :: r => if eqb k (fst e) then Some (snd e) else aget k r
    end.
  Fixpoint adel (k : K) (l : list (K * V)) : list (K * V) :=
    match l with
    | [] => []
    | e :: r => if eqb k (fst e) then adel k r else e :: adel k r
    end.
  Definition aset (k : K) (v : V) (l : list (K * V)) : list (K * V) := (k, v) :: adel k l.
End Assoc.

(** ** State *)
Inductive auto := AUnspec | AAccept | ADecline | ABad.   (* ABad: an enum value outside the proto *)

Record qrec := { q_unacc : list addr; q_acc : list addr; q_coins : coins; q_declined : bool }.

Definition rkey := (addr * list addr)%type.            (* (to, record suffix) *)
Definition rkey_eqb (x y : rkey) : bool := Pos.eqb (fst x) (fst y) && addrs_eqb (snd x) (snd y).
Definition pair_eqb (x y : addr * addr) : bool := Pos.eqb (fst x) (fst y) && Pos.eqb (snd x) (snd y).

Definition bal := addr -> denom -> Z.

Record state := {
  s_optin : list addr;
  s_auto  : list ((addr * addr) * auto);                (* (to, from) -> accept / decline *)
  s_recs  : list (rkey * qrec);
  s_idx   : list ((addr * addr) * list (list addr));   (* (to, from) -> suffixes of multi-sender records *)
  s_bal   : bal;
  s_xfer  : list (denom * list addr)                    (* restricted marker denom -> Access_Transfer holders *)
}.

Definition with_bal (s : state) (b : bal) : state :=
  {| s_optin := s_optin s; s_auto := s_auto s; s_recs := s_recs s; s_idx := s_idx s; s_bal := b; s_xfer := s_xfer s |}.
Definition with_optin (s : state) (o : list addr) : state :=
  {| s_optin := o; s_auto := s_auto s; s_recs := s_recs s; s_idx := s_idx s; s_bal := s_bal s; s_xfer := s_xfer s |}.
Definition with_auto (s : state) (a : list ((addr * addr) * auto)) : state :=
  {| s_optin := s_optin s; s_auto := a; s_recs := s_recs s; s_idx := s_idx s; s_bal := s_bal s; s_xfer := s_xfer s |}.
Definition with_recs (s : state) (r : list (rkey * qrec)) (i : list ((addr * addr) * list (list addr))) : state :=
  {| s_optin := s_optin s; s_auto := s_auto s; s_recs := r; s_idx := i; s_bal := s_bal s; s_xfer := s_xfer s |}.

(** ** Bank: balances *)
Definition bal_add (b : bal) (a : addr) (c : coins) : bal :=
  fun a' d => if Pos.eqb a' a then b a' d + amt c d else b a' d.
Definition bal_sub (b : bal) (a : addr) (c : coins) : bal :=
  fun a' d => if Pos.eqb a' a then b a' d - amt c d else b a' d.
(* subUnlockedCoins succeeds iff every coin is covered (no locked coins) *)
Definition can_pay (b : bal) (a : addr) (c : coins) : bool :=
  forallb (fun d => amt c d <=? b a d) (denoms c).

(** ** Opt-in and auto-responses *)
Definition is_optin (s : state) (a : addr) : bool := mem a (s_optin s).
Definition opt_in (s : state) (a : addr) : state :=
  if is_optin s a then s else with_optin s (a :: s_optin s).
Definition opt_out (s : state) (a : addr) : state :=
  with_optin s (filter (fun x => negb (Pos.eqb x a)) (s_optin s)).

(* GetAutoResponse: an address always auto-accepts itself *)
Definition get_auto (s : state) (to from : addr) : auto :=
  if Pos.eqb to from then AAccept
  else match aget pair_eqb (to, from) (s_auto s) with Some r => r | None => AUnspec end.
(* SetAutoResponse: anything but accept/decline deletes the entry *)
Definition set_auto (s : state) (to from : addr) (r : auto) : state :=
  match r with
  | AAccept | ADecline => with_auto s (aset pair_eqb (to, from) r (s_auto s))
  | _ => with_auto s (adel pair_eqb (to, from) (s_auto s))
  end.
Definition is_accept (r : auto) : bool := match r with AAccept => true | _ => false end.
Definition is_decline (r : auto) : bool := match r with ADecline => true | _ => false end.
Definition is_auto_accept (s : state) (to : addr) (froms : list addr) : bool :=
  forallb (fun f => is_accept (get_auto s to f)) froms.
Definition is_auto_decline (s : state) (to : addr) (froms : list addr) : bool :=
  existsb (fun f => is_decline (get_auto s to f)) froms.

(** ** Records *)
Definition all_froms (r : qrec) : list addr := q_unacc r ++ q_acc r.
Definition fully_accepted (r : qrec) : bool := match q_unacc r with [] => true | _ => false end.
Definition is_multi (froms : list addr) : bool := match froms with _ :: _ :: _ => true | _ => false end.
(* createRecordSuffix: the first 32 bytes of a single sender, the hash of several *)
Definition trunc (a : addr) : addr := if Pos.ltb a 1000 then a else Z.to_pos (Z.pos a / 1000).
Definition sfx_of (froms : list addr) : list addr :=
  match froms with [f] => [trunc f] | _ => sort froms end.
Definition mk_key (to : addr) (froms : list addr) : rkey := (to, sfx_of froms).
(* CreateRecordKey(to, suffix) applied to an already known suffix *)
Definition key_sfx (x : list addr) : list addr := match x with [f] => [trunc f] | _ => x end.

(* QuarantineRecordSuffixIndex.Simplify(toRemove...) up to order *)
Definition smem (x : list addr) (l : list (list addr)) : bool := existsb (addrs_eqb x) l.
Fixpoint dedup (l : list (list addr)) : list (list addr) :=
  match l with
  | [] => []
  | x :: r => if smem x r then dedup r else x :: dedup r
  end.
Definition simplify (l rm : list (list addr)) : list (list addr) :=
  dedup (filter (fun x => negb (smem x rm)) l).

Definition idx_get (i : list ((addr * addr) * list (list addr))) (to from : addr) : list (list addr) :=
  match aget pair_eqb (to, from) i with Some l => filter is_multi l | None => [] end.
(* setQuarantineRecordSuffixIndex: an empty entry is deleted *)
Definition idx_set (i : list ((addr * addr) * list (list addr))) (to from : addr) (v : list (list addr)) :=
  match v with
  | [] => adel pair_eqb (to, from) i
  | _ => aset pair_eqb (to, from) v i
  end.
Definition idx_add_all i (to : addr) (froms : list addr) (sfx : list addr) :=
  fold_left (fun i f => idx_set i to f (simplify (idx_get i to f ++ [sfx]) [[f]])) froms i.
Definition idx_del_all i (to : addr) (froms : list addr) (sfx : list addr) :=
  fold_left (fun i f => idx_set i to f (simplify (idx_get i to f) [[f]; sfx])) froms i.

(* SetQuarantineRecord; [None] = createRecordSuffix panics on an empty sender list *)
Definition set_record (s : state) (to : addr) (r : qrec) : option state :=
  let froms := all_froms r in
  match froms with
  | [] => None
  | _ =>
      let k := mk_key to froms in
      if fully_accepted r then
        Some (with_recs s (adel rkey_eqb k (s_recs s))
                (if is_multi froms then idx_del_all (s_idx s) to froms (snd k) else s_idx s))
      else
        Some (with_recs s (aset rkey_eqb k r (s_recs s))
                (if is_multi froms then idx_add_all (s_idx s) to froms (snd k) else s_idx s))
  end.

Definition get_record (s : state) (to : addr) (froms : list addr) : option qrec :=
  aget rkey_eqb (mk_key to froms) (s_recs s).

(* getQuarantineRecordSuffixes + GetQuarantineRecords: the records to [to] reachable from any of
   [froms] through the suffix index, with the key they are stored under; once per looked-up
   suffix: two different named senders with the same first 32 bytes yield the same record twice *)
Definition get_suffixes (s : state) (to : addr) (froms : list addr) : list (list addr) :=
  dedup (flat_map (fun f => idx_get (s_idx s) to f ++ [[f]]) froms).
Definition get_records (s : state) (to : addr) (froms : list addr) : list (rkey * qrec) :=
  flat_map (fun sfx => match aget rkey_eqb (to, key_sfx sfx) (s_recs s) with
                       | Some r => [((to, key_sfx sfx), r)]
                       | None => []
                       end) (get_suffixes s to froms).

Definition with_coins (r : qrec) (c : coins) : qrec :=
  {| q_unacc := q_unacc r; q_acc := q_acc r; q_coins := c; q_declined := q_declined r |}.
Definition with_declined (r : qrec) (b : bool) : qrec :=
  {| q_unacc := q_unacc r; q_acc := q_acc r; q_coins := q_coins r; q_declined := b |}.

(* AddQuarantinedCoins *)
Definition add_quarantined (s : state) (c : coins) (to : addr) (froms : list addr) : option state :=
  match froms with
  | [] => None
  | _ =>
    let qr :=
      match get_record s to froms with
      | Some r => with_coins r (q_coins r ++ c)
      | None =>
          {| q_unacc := filter (fun f => negb (is_auto_accept s to [f])) froms;
             q_acc := filter (fun f => is_auto_accept s to [f]) froms;
             q_coins := c; q_declined := false |}
      end in
    if fully_accepted qr then None
    else set_record s to (with_declined qr (is_auto_decline s to froms))
  end.

(* findAddresses / AcceptFrom / DeclineFrom; [None] = nothing changed *)
Definition accept_from (r : qrec) (froms : list addr) : option qrec :=
  let found := filter (fun a => mem a froms) (q_unacc r) in
  let left := filter (fun a => negb (mem a froms)) (q_unacc r) in
  match found with
  | [] => None
  | _ => Some {| q_unacc := left; q_acc := q_acc r ++ found; q_coins := q_coins r; q_declined := q_declined r |}
  end.
Definition decline_from (r : qrec) (froms : list addr) : option qrec :=
  let back := filter (fun a => mem a froms) (q_acc r) in
  let left := filter (fun a => negb (mem a froms)) (q_acc r) in
  match back, q_declined r with
  | [], true => None
  | _, _ => Some {| q_unacc := q_unacc r ++ back; q_acc := left; q_coins := q_coins r; q_declined := true |}
  end.

(** ** The send restriction and the bank's transfer of one (input, output) pair *)
Section WithHolder.
Variable h : addr.                                    (* the quarantine funds holder *)

(* marker SendRestrictionFn / validateSendDenom for the coins of one transfer: every restricted
   denom among them needs a sender with Access_Transfer, or a sender that is a required-attribute
   bypass address (the marker has no required attributes); the holder is one *)
Definition marker_ok (s : state) (from : addr) (c : coins) : bool :=
  forallb (fun d => match aget Pos.eqb d (s_xfer s) with
                    | None => true
                    | Some l => mem from l || Pos.eqb from h
                    end) (denoms c).

(* the composed send restriction without bypass (marker, then quarantine): new state and the
   address that is credited; [None] = the transfer is refused *)
Definition restrict (s : state) (from to : addr) (c : coins) : option (state * addr) :=
  if negb (marker_ok s from c) then None
  else if Pos.eqb from to || Pos.eqb from h then Some (s, to)
  else if negb (is_optin s to) || is_auto_accept s to [from] then Some (s, to)
  else match add_quarantined s c to [from] with
       | Some s' => Some (s', h)
       | None => None
       end.

(* subUnlockedCoins of one input: fails when a coin is not covered *)
Definition debit (st : option state) (i : addr * coins) : option state :=
  match st with
  | None => None
  | Some s =>
      if can_pay (s_bal s) (fst i) (snd i)
      then Some (with_bal s (bal_sub (s_bal s) (fst i) (snd i)))
      else None
  end.

(* the restriction for one (input, output) pair, then addCoins to whoever it names.  (The bank
   sums the amounts per resulting address and credits at the end; the restriction does not read
   balances, so crediting pair by pair gives the same state.) *)
Definition credit (st : option state) (t : addr * addr * coins) : option state :=
  match st with
  | None => None
  | Some s =>
      let '(from, to, c) := t in
      match restrict s from to c with
      | Some (s2, dest) => Some (with_bal s2 (bal_add (s_bal s2) dest c))
      | None => None
      end
  end.

(* msgServer.Send -> SendCoins: debit, restriction, credit *)
Definition send (s : state) (from to : addr) (c : coins) : option state :=
  if coins_valid c then credit (debit (Some s) (from, c)) (from, to, c) else None.

Definition sum_amt (l : list coins) (d : denom) : Z := fold_right (fun c acc => amt c d + acc) 0 l.

(* msgServer.MultiSend -> InputOutputCoinsProv: one input, many outputs; the input is debited
   first, then the restriction runs once per output *)
Definition multi_send (s : state) (from : addr) (inc : coins) (outs : list (addr * coins)) : option state :=
  match outs with
  | [] => None
  | _ =>
      if coins_valid inc && forallb (fun o => coins_valid (snd o)) outs
         && forallb (fun d => amt inc d =? sum_amt (map snd outs) d)
                    (denoms inc ++ flat_map (fun o => denoms (snd o)) outs)
      then fold_left credit (map (fun o => (from, fst o, snd o)) outs) (debit (Some s) (from, inc))
      else None
  end.

(* BankKeeper.InputOutputCoinsProv with several inputs and one output that receives their sum: all
   inputs are debited first, then the restriction runs once per input.  (The bank sums the coins
   of a repeated input address and debits the sum once; without locked coins that succeeds
   exactly when debiting the inputs one after the other does, and leaves the same balances.) *)
Definition multi_in (s : state) (ins : list (addr * coins)) (to : addr) : option state :=
  match ins with
  | [] => None
  | _ =>
      if forallb (fun i => coins_valid (snd i)) ins
      then fold_left credit (map (fun i => (fst i, to, snd i)) ins) (fold_left debit ins (Some s))
      else None
  end.

(** ** Accept / decline *)
(* one record of AcceptQuarantinedFunds; the accumulator carries the funds released so far *)
Definition accept_one (to : addr) (froms : list addr) (st : option (state * coins)) (kr : rkey * qrec)
  : option (state * coins) :=
  match st with
  | None => None
  | Some (s, rel) =>
      match accept_from (snd kr) froms with
      | None => Some (s, rel)
      | Some r' =>
          if fully_accepted r' then
            (* SendCoins(quarantine.WithBypass(ctx), holder, to, coins): the quarantine restriction
               is skipped, the marker restriction still runs with the holder as the sender *)
            if marker_ok s h (q_coins r') && can_pay (s_bal s) h (q_coins r') then
              let b := bal_add (bal_sub (s_bal s) h (q_coins r')) to (q_coins r') in
              match set_record (with_bal s b) to r' with
              | Some s' => Some (s', rel ++ q_coins r')
              | None => None
              end
            else None
          else
            match set_record s to (with_declined r' (is_auto_decline s to (q_unacc r'))) with
            | Some s' => Some (s', rel)
            | None => None
            end
      end
  end.

Definition accept (s : state) (to : addr) (froms : list addr) (perm : bool) : option (state * coins) :=
  match froms with
  | [] => None                                           (* ValidateBasic *)
  | _ =>
      match fold_left (accept_one to froms) (get_records s to froms) (Some (s, [])) with
      | None => None
      | Some (s', rel) =>
          Some (if perm then fold_left (fun s f => set_auto s to f AAccept) froms s' else s', rel)
      end
  end.

Definition decline_one (to : addr) (froms : list addr) (st : option state) (kr : rkey * qrec) : option state :=
  match st with
  | None => None
  | Some s =>
      match decline_from (snd kr) froms with
      | None => Some s
      | Some r' => set_record s to r'
      end
  end.

Definition decline (s : state) (to : addr) (froms : list addr) (perm : bool) : option state :=
  match froms with
  | [] => None
  | _ =>
      match fold_left (decline_one to froms) (get_records s to froms) (Some s) with
      | None => None
      | Some s' => Some (if perm then fold_left (fun s f => set_auto s to f ADecline) froms s' else s')
      end
  end.

Definition auto_ok (r : auto) : bool := match r with ABad => false | _ => true end.
Definition update_auto (s : state) (to : addr) (ups : list (addr * auto)) : option state :=
  match ups with
  | [] => None
  | _ =>
      if forallb (fun u => auto_ok (snd u)) ups
      then Some (fold_left (fun s u => set_auto s to (fst u) (snd u)) ups s)
      else None
  end.

(** ** Operations and histories *)
Inductive op :=
| OOptIn (a : addr)
| OOptOut (a : addr)
| OSend (from to : addr) (c : coins)
| OMulti (from : addr) (inc : coins) (outs : list (addr * coins))
| OMultiIn (ins : list (addr * coins)) (to : addr)
| OAccept (to : addr) (froms : list addr) (perm : bool)
| ODecline (to : addr) (froms : list addr) (perm : bool)
| OUpdate (to : addr) (ups : list (addr * auto)).

(* [None] = rejected; [Some rel] = accepted, [rel] = MsgAcceptResponse.FundsReleased ([] otherwise) *)
Definition result := option coins.

Definition lift (s : state) (o : option state) : state * result :=
  match o with Some s' => (s', Some []) | None => (s, None) end.

Definition step (s : state) (o : op) : state * result :=
  match o with
  | OOptIn a => (opt_in s a, Some [])
  | OOptOut a => (opt_out s a, Some [])
  | OSend from to c => lift s (send s from to c)
  | OMulti from inc outs => lift s (multi_send s from inc outs)
  | OMultiIn ins to => lift s (multi_in s ins to)
  | OAccept to froms perm =>
      match accept s to froms perm with Some (s', rel) => (s', Some rel) | None => (s, None) end
  | ODecline to froms perm => lift s (decline s to froms perm)
  | OUpdate to ups => lift s (update_auto s to ups)
  end.

Definition run (s : state) (ops : list op) : state := fold_left (fun s o => fst (step s o)) ops s.

End WithHolder.

(** ** Genesis: InitGenesis writes opt-ins, auto-responses and records (all senders unaccepted,
    through SetQuarantineRecord), then checks that the holder covers the imported total; balances
    are whatever the bank holds. *)
Record genesis := {
  g_optin : list addr;
  g_auto  : list (addr * addr * auto);
  g_funds : list (addr * list addr * coins * bool);     (* to, unaccepted senders, coins, declined *)
  g_bal   : list (addr * denom * Z);
  g_xfer  : list (denom * list addr)                    (* restricted markers present at genesis *)
}.

Definition bal_of_list (l : list (addr * denom * Z)) : bal :=
  fun a d => fold_right (fun e acc => let '(a', d', x) := e in
                                      if Pos.eqb a a' && Pos.eqb d d' then x + acc else acc) 0 l.

Definition empty_state (b : bal) (x : list (denom * list addr)) : state :=
  {| s_optin := []; s_auto := []; s_recs := []; s_idx := []; s_bal := b; s_xfer := x |}.

(* totalQuarantined of InitGenesis: the coins of ALL genesis entries added up (also of an entry that a
   later entry with the same key overwrites) *)
Definition funds_total (funds : list (addr * list addr * coins * bool)) (d : denom) : Z :=
  fold_right (fun e acc => amt (snd (fst e)) d + acc) 0 funds.
Definition funds_denoms (funds : list (addr * list addr * coins * bool)) : list denom :=
  flat_map (fun e => denoms (snd (fst e))) funds.

Definition gen_fund (st : option state) (e : addr * list addr * coins * bool) : option state :=
  match st with
  | None => None
  | Some s =>
      let '(to, froms, c, decl) := e in
      set_record s to {| q_unacc := froms; q_acc := []; q_coins := c; q_declined := decl |}
  end.

(* InitGenesis; [None] = it panics: a record without senders, or the funds holder [h] does not hold
   the total of the imported records in some denom (holderBalance.SafeSub(total) has a negative
   amount; a denom the holder does not hold at all counts as 0) *)
Definition init_genesis (h : addr) (g : genesis) : option state :=
  let s0 := empty_state (bal_of_list (g_bal g)) (g_xfer g) in
  let s1 := fold_left opt_in (g_optin g) s0 in
  let s2 := fold_left (fun s e => let '(to, from, r) := e in set_auto s to from r) (g_auto g) s1 in
  match fold_left gen_fund (g_funds g) (Some s2) with
  | None => None
  | Some s =>
      if forallb (fun d => funds_total (g_funds g) d <=? s_bal s h d) (funds_denoms (g_funds g))
      then Some s else None
  end.

(** ** Quantities the property speaks about *)
Definition rec_total (l : list (rkey * qrec)) (d : denom) : Z :=
  fold_right (fun kr acc => amt (q_coins (snd kr)) d + acc) 0 l.
(* what the holder has beyond what the records need *)
Definition slack (h : addr) (s : state) (d : denom) : Z := s_bal s h d - rec_total (s_recs s) d.
Definition total (U : list addr) (b : bal) (d : denom) : Z := fold_right (fun a acc => b a d + acc) 0 U.
