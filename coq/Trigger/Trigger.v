(** Model of the trigger module (property C17): registry, event listeners, FIFO queue, begin-block dispatch
    with heterogeneous actions, create/destroy transactions, end-block detection.

    Go sources transcribed (x/trigger):
      keeper/trigger_registry.go  RegisterTrigger (gas limit = remaining gas - SetGasLimitCost, capped at
                                  MaximumTriggerGas, then consumed from the meter it was taken from: the creating
                                  tx's meter, or - for a MsgCreateTriggerRequest that is itself a trigger action -
                                  the running trigger's own meter, which is left with nothing), UnregisterTrigger
      keeper/trigger.go           NewTriggerWithID / getNextTriggerID (ids start at 1, never reused; the counter
                                  lives in the store, so a rolled-back creation does not burn an id)
      keeper/gas_limit.go         SetGasLimitCost = 2510, MaximumTriggerGas = 2,000,000
      keeper/event_listener.go    listener keys = (sha256(lower(trim(prefix))), order, id), iterated in key order
      types/trigger.go            GetEventPrefix / GetEventOrder: height -> ("block-height", height),
                                  time -> ("block-time", uint64(Time.UnixNano())), transaction event ->
                                  (its user-chosen NAME, 0); TransactionEvent.Matches / Attribute.Matches;
                                  Validate (a block time after time.Unix(0, MaxInt64) is refused: 0ecc451a1)
                                  / ValidateContext of the three events
      keeper/event_detector.go    DetectBlockEvents: detectTransactionEvents (per event of the block's history,
                                  the listeners under the event type's prefix in key order; a listener that is
                                  not a transaction event never matches; a trigger already MATCHED in this block
                                  is skipped: commit 77d9b10c4), detectBlockHeightEvents and detectTimeEvents
                                  (ordered scan: collect the matching listeners, stop AFTER the first height /
                                  time listener that lies in the future; a listener of another kind under the
                                  prefix is neither a match nor the end: commit 58a33361d); then for every
                                  detected trigger UnregisterTrigger + QueueTrigger
      keeper/queue.go             Enqueue (tail), QueuePeek/Dequeue (head): start index + length = a list
      keeper/trigger_dispatcher.go ProcessTriggers (MaximumActions = 5, MaximumQueueGas = 2,000,000),
                                  runActions (cache context, own gas meter, flushed only if every action
                                  succeeded), handleMsgs / safeHandle (errors, panics and out-of-gas = failure)
      keeper/msg_server.go        CreateTrigger (ValidateContext, owner = authorities[0]), DestroyTrigger
                                  (GetTrigger from the registry only; owner check; unregister + gas limit)
      keeper/genesis.go           InitGenesis: next id, queue, gas limits, triggers + listeners as given
      types/msgs.go               MsgCreateTriggerRequest.ValidateBasic (>= 1 action, event valid, every action
                                  passes its own ValidateBasic and each of its signers is an authority),
                                  MsgDestroy... (id <> 0)
      abci.go, module/module.go   BeginBlocker = ProcessTriggers, EndBlocker = DetectBlockEvents
    and the handlers the actions reach (read, modelled by their accept condition and their effect):
      bank Send / MultiSend (one input; inputs = outputs; all amounts positive; balance suffices),
      marker Transfer (restricted coin; administrator has ACCESS_TRANSFER; administrator <> from needs a marker
      transfer authorization, which nothing in a history grants), name BindName (restricted parent: the parent
      address given must own it; the name must be free), authz Grant (granter <> grantee; an expiration must be
      after the block time), trigger CreateTrigger / DestroyTrigger as above.

    Assumed / external:
    - Accounts, event type names, attribute names/values and bound names are interned to [N] by the harness;
      0 is the empty (blank) string, [P_HEIGHT] = 1 is "block-height", [P_TIME] = 2 is "block-time".  An event
      name comes with the interned form of lower(trim(name)) - its listener prefix ([lname], [em_ltype]).
    - The SDK runs ValidateBasic, then the ante handler (signature check: the signers of the tx are exactly
      the message's authorities, in order), then the handler; a failing tx leaves the state unchanged.
    - Two coins that nothing but the modelled operations move: the action coin ([bank]) and a restricted
      marker coin ([rbank]); banks are total functions to Z (no holds/vesting/restrictions on these accounts).
      [cfg] (who has ACCESS_TRANSFER, who owns the restricted root name) never changes.
    - Times are exact unix nanoseconds in Z (a time.Time may lie outside the int64 range of UnixNano: the Go
      conversion wraps, [ev_order] takes it modulo 2^64); heights are < 2^64.
    - Gas numbers are not modelled: [c_used] (gas consumed by the creating tx before the limit is computed),
      the per-block [b_oracle] (ids whose actions ran out of gas or panicked) and [b_nest] (the gas limit a
      trigger created BY a trigger action received = what was left on the running trigger's meter) are
      supplied from outside; assumed: an action needs at least [gas_lo] gas, and after a nested creation the
      running trigger's meter is empty, so any further action fails.  The gas limit is kept with the trigger
      (Go keeps it under a separate key written at registration and deleted at dequeue/destroy).
    - [t_auths], [t_root] and [t_prepaid] are ghost fields (the authorities of the creating message, the
      signers of the transaction the trigger ultimately stems from, and the gas that paid for it): no
      transition reads them.
    No proofs here. *)
From Coq Require Import ZArith NArith List Bool.
Import ListNotations.
Open Scope N_scope.

Definition addr := N.

Definition MaximumActions : nat := 5.
Definition MaximumQueueGas : N := 2000000.
Definition MaximumTriggerGas : N := 2000000.
Definition SetGasLimitCost : N := 2510.
Definition gas_lo : N := 4000.     (* every action consumes at least this much gas *)
Definition P_HEIGHT : N := 1.
Definition P_TIME : N := 2.
Definition two64 : Z := 18446744073709551616%Z.

Inductive event :=
| EvHeight (h : N)
| EvTime (t : Z)                                    (* unix NANOseconds, exact *)
| EvTx (name lname : N) (attrs : list (N * N)).     (* attribute name, required value (0 = any) *)

Record emitted := { em_type : N; em_ltype : N; em_attrs : list (N * N) }.

(** Messages a trigger may carry.  [act0]: everything but a creation; [ACreate]: a nested
    MsgCreateTriggerRequest (its own actions are [act0]: one level of nesting is modelled). *)
Inductive act0 :=
| ASend (from to : addr) (amt : Z)
| AMulti (from : addr) (inamt : Z) (outs : list (addr * Z))
| AMarker (admin from to : addr) (amt : Z)
| ABind (paddr : addr) (nm : N) (owner : addr)      (* bind <nm>.<root> to [owner]; [paddr] = claimed owner of the root *)
| AGrant (granter grantee : addr) (exp : option Z)
| ADestroy (who : addr) (id : N).

Inductive action :=
| ABasic (a : act0)
| ACreate (auths : list addr) (ev : event) (acts : list act0).

Definition signers0 (a : act0) : list addr :=
  match a with
  | ASend f _ _ => [f]
  | AMulti f _ _ => [f]
  | AMarker ad _ _ _ => [ad]
  | ABind p _ _ => [p]
  | AGrant g _ _ => [g]
  | ADestroy w _ => [w]
  end.

Definition a_signers (a : action) : list addr :=
  match a with ABasic b => signers0 b | ACreate au _ _ => au end.

Record trigger := { t_id : N; t_owner : addr; t_event : event; t_actions : list action;
                    t_auths : list addr; t_root : list addr; t_prepaid : N }.

Definition entry := (trigger * N)%type.             (* trigger with its gas limit *)
Definition eid (e : entry) : N := t_id (fst e).

Definition bank_t := addr -> Z.

Record config := { xfer_admins : list addr; root_owner : addr }.

Record state := { cfg : config; reg : list entry; queue : list entry; next_id : N;
                  bank : bank_t; rbank : bank_t; names : list (N * addr); grants : list (addr * addr) }.

Definition init_cfg (c : config) (b rb : bank_t) : state :=
  {| cfg := c; reg := []; queue := []; next_id := 1; bank := b; rbank := rb; names := []; grants := [] |}.

Definition cfg0 : config := {| xfer_admins := []; root_owner := 0 |}.
Definition init (b : bank_t) : state := init_cfg cfg0 b (fun _ => 0%Z).

(** a state as InitGenesis leaves it *)
Definition init_gen (c : config) (b rb : bank_t) (r q : list entry) (nx : N) : state :=
  {| cfg := c; reg := r; queue := q; next_id := nx; bank := b; rbank := rb; names := []; grants := [] |}.

Definition set_reg (s : state) (r : list entry) : state :=
  {| cfg := cfg s; reg := r; queue := queue s; next_id := next_id s; bank := bank s; rbank := rbank s;
     names := names s; grants := grants s |}.
Definition set_queue (s : state) (q : list entry) : state :=
  {| cfg := cfg s; reg := reg s; queue := q; next_id := next_id s; bank := bank s; rbank := rbank s;
     names := names s; grants := grants s |}.
Definition set_bank (s : state) (b : bank_t) : state :=
  {| cfg := cfg s; reg := reg s; queue := queue s; next_id := next_id s; bank := b; rbank := rbank s;
     names := names s; grants := grants s |}.
Definition set_rbank (s : state) (b : bank_t) : state :=
  {| cfg := cfg s; reg := reg s; queue := queue s; next_id := next_id s; bank := bank s; rbank := b;
     names := names s; grants := grants s |}.
Definition set_names (s : state) (l : list (N * addr)) : state :=
  {| cfg := cfg s; reg := reg s; queue := queue s; next_id := next_id s; bank := bank s; rbank := rbank s;
     names := l; grants := grants s |}.
Definition set_grants (s : state) (l : list (addr * addr)) : state :=
  {| cfg := cfg s; reg := reg s; queue := queue s; next_id := next_id s; bank := bank s; rbank := rbank s;
     names := names s; grants := l |}.

Definition mem (x : N) (l : list N) : bool := existsb (N.eqb x) l.

(** * Effects and accept conditions of the basic actions *)
Definition bupd (b : bank_t) (a : addr) (v : Z) : bank_t := fun x => if N.eqb x a then v else b x.

Definition move (b : bank_t) (f t : addr) (amt : Z) : bank_t :=
  let b1 := bupd b f (b f - amt)%Z in
  bupd b1 t (b1 t + amt)%Z.

Definition credit (b : bank_t) (o : addr * Z) : bank_t := bupd b (fst o) (b (fst o) + snd o)%Z.
Definition pay_outs (b : bank_t) (outs : list (addr * Z)) : bank_t := fold_left credit outs b.
Definition sumZ (l : list Z) : Z := fold_right Z.add 0%Z l.

Definition name_bound (nm : N) (l : list (N * addr)) : bool := existsb (fun p => fst p =? nm) l.
Definition has_grant (g ge : addr) (l : list (addr * addr)) : bool :=
  existsb (fun p => (fst p =? g) && (snd p =? ge)) l.
Definition add_grant (g ge : addr) (l : list (addr * addr)) : list (addr * addr) :=
  if has_grant g ge l then l else l ++ [(g, ge)].

Definition remove_id (i : N) (l : list entry) : list entry :=
  filter (fun e => negb (eid e =? i)) l.

Definition find_id (i : N) (l : list entry) : option entry :=
  find (fun e => eid e =? i) l.

(** the handler accepts the message in state [s] at block time [t] *)
Definition pre0 (t : Z) (s : state) (a : act0) : bool :=
  match a with
  | ASend f _ amt => (0 <? amt)%Z && (amt <=? bank s f)%Z
  | AMulti f inamt outs =>
      negb (match outs with [] => true | _ => false end) && forallb (fun o => (0 <? snd o)%Z) outs
      && (inamt =? sumZ (map snd outs))%Z && (inamt <=? bank s f)%Z
  | AMarker ad f _ amt =>
      (0 <? amt)%Z && mem ad (xfer_admins (cfg s)) && (ad =? f) && (amt <=? rbank s f)%Z
  | ABind p nm _ => (p =? root_owner (cfg s)) && negb (name_bound nm (names s))
  | AGrant g ge exp => negb (g =? ge) && match exp with None => true | Some x => (t <? x)%Z end
  | ADestroy who id =>
      negb (id =? 0) && match find_id id (reg s) with Some e => t_owner (fst e) =? who | None => false end
  end.

(** what the message does when it is accepted (the specification of "it took effect") *)
Definition eff0 (s : state) (a : act0) : state :=
  match a with
  | ASend f to amt => set_bank s (move (bank s) f to amt)
  | AMulti f inamt outs => set_bank s (pay_outs (bupd (bank s) f (bank s f - inamt)%Z) outs)
  | AMarker _ f to amt => set_rbank s (move (rbank s) f to amt)
  | ABind _ nm owner => set_names s (names s ++ [(nm, owner)])
  | AGrant g ge _ => set_grants s (add_grant g ge (grants s))
  | ADestroy _ id => set_reg s (remove_id id (reg s))
  end.

Definition exec0 (t : Z) (s : state) (a : act0) : option state :=
  if pre0 t s a then Some (eff0 s a) else None.

(** * Validation of a creation *)
Definition basic_ok0 (a : act0) : bool :=                     (* the message's own ValidateBasic *)
  match a with
  | AMarker _ _ _ amt => (0 <? amt)%Z                          (* only positive amounts are generated *)
  | ADestroy _ id => negb (id =? 0)
  | _ => true
  end.

Definition max_int64 : Z := 9223372036854775807%Z.

(** Validate: a transaction event needs a non-blank name and non-blank attribute names; a block time must
    fit the nanoseconds of its listener order (commit 0ecc451a1: not after time.Unix(0, MaxInt64)) *)
Definition event_valid (ev : event) : bool :=
  match ev with
  | EvTx _ lname attrs => negb (lname =? 0) && forallb (fun p => negb (fst p =? 0)) attrs
  | EvTime t => (t <=? max_int64)%Z
  | EvHeight _ => true
  end.

Definition event_valid_ctx (h : N) (t : Z) (ev : event) : bool :=
  match ev with
  | EvHeight x => h <? x
  | EvTime x => (t <? x)%Z
  | EvTx _ _ _ => true
  end.

(** hasSigners: EVERY required signer of the action is one of the authorities *)
Definition signed_by (auths : list addr) (sg : list addr) : bool := forallb (fun x => mem x auths) sg.

Definition validate_basic0 (auths : list addr) (ev : event) (acts : list act0) : bool :=
  negb (match acts with [] => true | _ => false end) && event_valid ev
  && forallb (fun a => basic_ok0 a && signed_by auths (signers0 a)) acts.

Definition basic_ok (a : action) : bool :=
  match a with ABasic b => basic_ok0 b | ACreate au ev acts => validate_basic0 au ev acts end.

Definition action_ok (auths : list addr) (a : action) : bool := basic_ok a && signed_by auths (a_signers a).

Definition validate_basic (auths : list addr) (ev : event) (acts : list action) : bool :=
  negb (match acts with [] => true | _ => false end) && event_valid ev && forallb (action_ok auths) acts.

(** RegisterTrigger with a fresh id *)
Definition register (s : state) (owner : addr) (auths root : list addr) (ev : event) (acts : list action)
                    (lim prepaid : N) : state :=
  let tr := {| t_id := next_id s; t_owner := owner; t_event := ev; t_actions := acts;
               t_auths := auths; t_root := root; t_prepaid := prepaid |} in
  {| cfg := cfg s; reg := reg s ++ [(tr, lim)]; queue := queue s; next_id := next_id s + 1;
     bank := bank s; rbank := rbank s; names := names s; grants := grants s |}.

(** * runActions *)
(** one action of the running trigger [(root, plim)]: [nl] = the gas limit a nested creation receives *)
Definition exec_action (h : N) (t : Z) (root : list addr) (plim : N) (nl : option N) (s : state) (a : action)
  : option state :=
  match a with
  | ABasic b => exec0 t s b
  | ACreate au ev acts =>
      match nl, au with
      | Some lim, owner :: _ =>
          if validate_basic0 au ev acts && event_valid_ctx h t ev && (lim + SetGasLimitCost <=? plim)
          then Some (register s owner au root ev (map ABasic acts) lim plim)
          else None
      | _, _ => None
      end
  end.

(** handleMsgs on the cache: stops at the first failing message; a nested creation hands ALL the gas that is
    left to the new trigger, so nothing can run after it *)
Fixpoint exec_all (h : N) (t : Z) (root : list addr) (plim : N) (nl : option N) (s : state) (acts : list action)
  : option state :=
  match acts with
  | [] => Some s
  | a :: r =>
      match exec_action h t root plim nl s a with
      | None => None
      | Some s1 =>
          match a, r with
          | ACreate _ _ _, _ :: _ => None
          | _, _ => exec_all h t root plim nl s1 r
          end
      end
  end.

Definition lookupN (i : N) (l : list (N * N)) : option N :=
  match find (fun p => fst p =? i) l with Some p => Some (snd p) | None => None end.

(** runActions: the cache is flushed only when every action succeeded. *)
Definition run_actions (h : N) (t : Z) (s : state) (e : entry) (oracle : list N) (nest : list (N * N))
  : state * bool :=
  let acts := t_actions (fst e) in
  if snd e <? gas_lo * N.of_nat (length acts) then (s, false)
  else if mem (eid e) oracle then (s, false)
  else match exec_all h t (t_root (fst e)) (snd e) (lookupN (eid e) nest) s acts with
       | Some s' => (s', true)
       | None => (s, false)
       end.

(** * ProcessTriggers *)
Fixpoint dispatch (fuel : nat) (h : N) (t : Z) (gas : N) (s : state) (oracle : list N) (nest : list (N * N))
  : state * list (entry * bool) :=
  match fuel with
  | O => (s, [])
  | S f =>
      match queue s with
      | [] => (s, [])
      | e :: rest =>
          if MaximumQueueGas <? snd e + gas then (s, [])
          else
            let '(s1, ok) := run_actions h t (set_queue s rest) e oracle nest in
            let '(s2, l) := dispatch f h t (gas + snd e) s1 oracle nest in
            (s2, (e, ok) :: l)
      end
  end.

(** * Transactions *)
Inductive tx :=
| TCreate (signers auths : list addr) (ev : event) (acts : list action) (txgas used : N)
| TDestroy (who : addr) (id : N)
| TSend (from to : addr) (amt : Z).

Fixpoint addrs_eqb (x y : list addr) : bool :=
  match x, y with
  | [], [] => true
  | a :: x', b :: y' => N.eqb a b && addrs_eqb x' y'
  | _, _ => false
  end.

Definition apply_tx (h : N) (t : Z) (s : state) (x : tx) : state * bool :=
  match x with
  | TCreate signers auths ev acts txgas used =>
      if negb (validate_basic auths ev acts) then (s, false)
      else if negb (addrs_eqb signers auths) then (s, false)
      else match auths with
      | [] => (s, false)
      | owner :: _ =>
        if negb (event_valid_ctx h t ev) then (s, false)
        else if txgas <? used then (s, false)
        else let remaining := txgas - used in
        if remaining <? SetGasLimitCost then (s, false)     (* uint64 underflow, capped, then out of gas *)
        else
          let lim := N.min (remaining - SetGasLimitCost) MaximumTriggerGas in
          (register s owner auths auths ev acts lim txgas, true)
      end
  | TDestroy who id =>
      match exec0 t s (ADestroy who id) with Some s' => (s', true) | None => (s, false) end
  | TSend from to amt =>
      match exec0 t s (ASend from to amt) with Some s' => (s', true) | None => (s, false) end
  end.

Fixpoint apply_txs (h : N) (t : Z) (s : state) (l : list tx) : state * list bool :=
  match l with
  | [] => (s, [])
  | x :: r =>
      let '(s1, ok) := apply_tx h t s x in
      let '(s2, oks) := apply_txs h t s1 r in
      (s2, ok :: oks)
  end.

(** * Event listeners *)
Definition ev_prefix (ev : event) : N :=
  match ev with EvHeight _ => P_HEIGHT | EvTime _ => P_TIME | EvTx _ l _ => l end.

(** GetEventOrder: uint64(Time.UnixNano()) wraps *)
Definition ev_order (ev : event) : N :=
  match ev with EvHeight h => h | EvTime t => Z.to_N (t mod two64) | EvTx _ _ _ => 0 end.

Definition lkey (x : entry) : N * N := (ev_order (t_event (fst x)), eid x).

Definition key_le (a b : N * N) : bool :=
  (fst a <? fst b) || ((fst a =? fst b) && (snd a <=? snd b)).

Fixpoint insert_by (k : entry -> N * N) (x : entry) (l : list entry) : list entry :=
  match l with
  | [] => [x]
  | y :: r => if key_le (k x) (k y) then x :: l else y :: insert_by k x r
  end.

Definition sort_by (k : entry -> N * N) (l : list entry) : list entry :=
  fold_right (insert_by k) [] l.

(** IterateEventListeners(prefix): the listeners under one prefix in key order *)
Definition listeners (p : N) (r : list entry) : list entry :=
  sort_by lkey (filter (fun x => ev_prefix (t_event (fst x)) =? p) r).

(** getMatchingTriggersUntil: collect the matches, stop after the first element the terminator accepts *)
Fixpoint scan (mt tm : entry -> bool) (l : list entry) : list entry :=
  match l with
  | [] => []
  | x :: r => (if mt x then [x] else []) ++ (if tm x then [] else scan mt tm r)
  end.

(** * Detection *)
Definition attr_matches (want : N * N) (got : N * N) : bool :=
  (fst want =? fst got) && ((snd want =? 0) || (snd want =? snd got)).

Definition tx_matches (name : N) (attrs : list (N * N)) (e : emitted) : bool :=
  (name =? em_type e) && forallb (fun w => existsb (attr_matches w) (em_attrs e)) attrs.

Definition is_tx (x : entry) : bool := match t_event (fst x) with EvTx _ _ _ => true | _ => false end.

Definition ev_matches (e : emitted) (x : entry) : bool :=
  match t_event (fst x) with EvTx name _ attrs => tx_matches name attrs e | _ => false end.

Fixpoint detect_tx (evs : list emitted) (r : list entry) (seen : list N) : list entry :=
  match evs with
  | [] => []
  | e :: rest =>
      let cands := filter (fun x => is_tx x && negb (mem (eid x) seen)) (listeners (em_ltype e) r) in
      let matched := filter (ev_matches e) cands in
      matched ++ detect_tx rest r (map eid matched ++ seen)
  end.

Definition h_match (h : N) (x : entry) : bool := match t_event (fst x) with EvHeight v => v <=? h | _ => false end.
Definition h_term (h : N) (x : entry) : bool := match t_event (fst x) with EvHeight v => h <? v | _ => false end.
Definition t_match (t : Z) (x : entry) : bool := match t_event (fst x) with EvTime v => (v <=? t)%Z | _ => false end.
Definition t_term (t : Z) (x : entry) : bool := match t_event (fst x) with EvTime v => (t <? v)%Z | _ => false end.

Definition detect_height (h : N) (r : list entry) : list entry := scan (h_match h) (h_term h) (listeners P_HEIGHT r).
Definition detect_time (t : Z) (r : list entry) : list entry := scan (t_match t) (t_term t) (listeners P_TIME r).

Definition detect (h : N) (t : Z) (evs : list emitted) (r : list entry) : list entry :=
  detect_tx evs r [] ++ detect_height h r ++ detect_time t r.

(** UnregisterTrigger + QueueTrigger for every detected trigger, in order. *)
Definition move_one (s : state) (e : entry) : state :=
  set_queue (set_reg s (remove_id (eid e) (reg s))) (queue s ++ [e]).

Definition move_all (s : state) (d : list entry) : state := fold_left move_one d s.

(** * Blocks *)
Record block := { b_height : N; b_time : Z; b_oracle : list N; b_nest : list (N * N);
                  b_txs : list tx; b_events : list emitted }.

Record bout := { o_disp : list (entry * bool); o_txres : list bool; o_det : list entry }.

Definition step (s : state) (b : block) : state * bout :=
  let '(s1, d) := dispatch MaximumActions (b_height b) (b_time b) 0 s (b_oracle b) (b_nest b) in
  let '(s2, r) := apply_txs (b_height b) (b_time b) s1 (b_txs b) in
  let dt := detect (b_height b) (b_time b) (b_events b) (reg s2) in
  (move_all s2 dt, {| o_disp := d; o_txres := r; o_det := dt |}).

Fixpoint run (s : state) (bs : list block) : state * list bout :=
  match bs with
  | [] => (s, [])
  | b :: r =>
      let '(s1, o) := step s b in
      let '(s2, os) := run s1 r in
      (s2, o :: os)
  end.

(** The final state alone, as a fold. *)
Definition run_state (s : state) (bs : list block) : state := fold_left (fun st b => fst (step st b)) bs s.
