(** Model of the trigger module (property C17): registry, FIFO queue, begin-block dispatch,
    create/destroy transactions, end-block detection.

    Go sources transcribed (x/trigger):
      keeper/trigger_registry.go  RegisterTrigger (gas limit = remaining gas - SetGasLimitCost, capped at
                                  MaximumTriggerGas, then consumed from the creating tx), UnregisterTrigger
      keeper/trigger.go           NewTriggerWithID / getNextTriggerID (ids start at 1, never reused)
      keeper/gas_limit.go         SetGasLimitCost = 2510, MaximumTriggerGas = 2,000,000
      keeper/event_detector.go    DetectBlockEvents: detectTransactionEvents (per event of the block's
                                  history, listeners of that event type in id order, a trigger already looked
                                  at in this block — matched or not — is skipped), detectBlockHeightEvents and
                                  detectTimeEvents (listener order = (height|time, id)); then for every
                                  detected trigger UnregisterTrigger + QueueTrigger
      keeper/queue.go             Enqueue (tail), QueuePeek/Dequeue (head): start index + length = a list
      keeper/trigger_dispatcher.go ProcessTriggers (MaximumActions = 5, MaximumQueueGas = 2,000,000),
                                  runActions (cache context, flushed only if every action succeeded),
                                  handleMsgs / safeHandle (errors, panics and out-of-gas all = failure)
      keeper/msg_server.go        CreateTrigger (ValidateContext, owner = authorities[0]), DestroyTrigger
                                  (GetTrigger from the registry only; owner check; unregister + gas limit)
      types/msgs.go               MsgCreateTriggerRequest.ValidateBasic (>= 1 action, event valid, every action
                                  valid and each of its signers among the authorities), MsgDestroy… (id <> 0)
      types/trigger.go            TransactionEvent.Matches / Attribute.Matches, ValidateContext of the events
      abci.go, module/module.go   BeginBlocker = ProcessTriggers, EndBlocker = DetectBlockEvents

    Assumed / external:
    - Accounts, event type names, attribute names and values are interned to [N] by the harness; 0 is the
      empty string.  Transaction-event names never equal "block-height"/"block-time".
    - The SDK runs ValidateBasic, then the ante handler (signature check: the signers of the tx are exactly
      the message's authorities, in order), then the handler; a failing tx leaves the state unchanged.
    - Actions are bank MsgSend of one denomination that nothing else moves; the bank is a total function to Z
      and a send fails iff the sender's balance is too small (no holds/vesting/restrictions on these accounts).
    - Block times and trigger times are exact unix nanoseconds (the listener order key of a time trigger is
      uint64(UnixNano)); heights and times are inputs of each block.
    - Gas numbers are not modelled: [c_used] (gas consumed by the creating tx before the limit is computed)
      and the per-block [b_oracle] (ids whose actions ran out of gas or panicked) are supplied from outside;
      the only gas facts assumed are that a send needs at least [gas_lo] gas.  The gas limit is kept with
      the trigger (Go keeps it under a separate key that is written at registration and deleted at
      dequeue/destroy).
    - [t_auths] and [t_prepaid] are ghost fields (the authorities and the gas limit of the creating
      transaction): no transition reads them.
    No proofs here. *)
From Coq Require Import ZArith NArith List Bool.
Import ListNotations.
Open Scope N_scope.

Definition addr := N.

Definition MaximumActions : nat := 5.
Definition MaximumQueueGas : N := 2000000.
Definition MaximumTriggerGas : N := 2000000.
Definition SetGasLimitCost : N := 2510.
Definition gas_lo : N := 4000.     (* a bank send consumes at least this much gas *)

Inductive event :=
| EvHeight (h : N)
| EvTime (t : N)                                    (* unix NANOseconds, exact (time.Time.UnixNano) *)
| EvTx (name : N) (attrs : list (N * N)).           (* attribute name, required value (0 = any) *)

Record emitted := { em_type : N; em_attrs : list (N * N) }.

(** [a_co]: required signers of the message besides [a_from] (none for a bank send).  The one
    multi-signer message the harness uses is a nested MsgCreateTriggerRequest with authorities
    [a_from :: a_co] whose own condition is a past block height: it passes ValidateBasic and its handler
    always fails (ValidateContext); it is written with [a_amt = 0], which can never be sent. *)
Record action := { a_from : addr; a_to : addr; a_amt : Z; a_co : list addr }.
Definition a_signers (a : action) : list addr := a_from a :: a_co a.

Record trigger := { t_id : N; t_owner : addr; t_event : event; t_actions : list action;
                    t_auths : list addr; t_prepaid : N }.

Definition entry := (trigger * N)%type.             (* trigger with its gas limit *)
Definition eid (e : entry) : N := t_id (fst e).

Definition bank_t := addr -> Z.

Record state := { reg : list entry; queue : list entry; next_id : N; bank : bank_t }.

Definition init (b : bank_t) : state := {| reg := []; queue := []; next_id := 1; bank := b |}.

Definition mem (x : N) (l : list N) : bool := existsb (N.eqb x) l.

(** * Bank sends *)
Definition bupd (b : bank_t) (a : addr) (v : Z) : bank_t := fun x => if N.eqb x a then v else b x.

Definition apply_send (b : bank_t) (a : action) : bank_t :=
  let b1 := bupd b (a_from a) (b (a_from a) - a_amt a)%Z in
  bupd b1 (a_to a) (b1 (a_to a) + a_amt a)%Z.

(** the bank's Send handler rejects non-positive amounts and amounts above the sender's balance
    (MsgSend has no ValidateBasic of its own in this SDK version, so this is only found out at run time) *)
Definition can_send (b : bank_t) (a : action) : bool := (0 <? a_amt a)%Z && (a_amt a <=? b (a_from a))%Z.

(** All effects, unconditionally (the specification of "everything took effect"). *)
Definition apply_all (b : bank_t) (acts : list action) : bank_t := fold_left apply_send acts b.

(** handleMsgs on the cache: stops at the first failing message. *)
Fixpoint send_all (b : bank_t) (acts : list action) : option bank_t :=
  match acts with
  | [] => Some b
  | a :: r => if can_send b a then send_all (apply_send b a) r else None
  end.

(** runActions: the cache is flushed only when every action succeeded. *)
Definition run_actions (b : bank_t) (e : entry) (oracle : list N) : bank_t * bool :=
  let acts := t_actions (fst e) in
  if snd e <? gas_lo * N.of_nat (length acts) then (b, false)
  else if mem (eid e) oracle then (b, false)
  else match send_all b acts with
       | Some b' => (b', true)
       | None => (b, false)
       end.

(** * ProcessTriggers *)
Fixpoint dispatch (fuel : nat) (gas : N) (s : state) (oracle : list N) : state * list (entry * bool) :=
  match fuel with
  | O => (s, [])
  | S f =>
      match queue s with
      | [] => (s, [])
      | e :: rest =>
          if MaximumQueueGas <? snd e + gas then (s, [])
          else
            let '(b', ok) := run_actions (bank s) e oracle in
            let s1 := {| reg := reg s; queue := rest; next_id := next_id s; bank := b' |} in
            let '(s2, l) := dispatch f (gas + snd e) s1 oracle in
            (s2, (e, ok) :: l)
      end
  end.

(** * Transactions *)
Inductive tx :=
| TCreate (signers auths : list addr) (ev : event) (acts : list action) (txgas used : N)
| TDestroy (who : addr) (id : N)
| TSend (from to : addr) (amt : Z).

(** hasSigners: EVERY required signer of the action is one of the authorities *)
Definition action_ok (auths : list addr) (a : action) : bool := forallb (fun x => mem x auths) (a_signers a).

Definition event_valid (ev : event) : bool :=
  match ev with
  | EvTx name attrs => negb (name =? 0) && forallb (fun p => negb (fst p =? 0)) attrs
  | _ => true
  end.

Definition event_valid_ctx (h t : N) (ev : event) : bool :=
  match ev with
  | EvHeight x => h <? x
  | EvTime x => t <? x
  | EvTx _ _ => true
  end.

Definition validate_basic (auths : list addr) (ev : event) (acts : list action) : bool :=
  negb (match acts with [] => true | _ => false end) && event_valid ev && forallb (action_ok auths) acts.

Fixpoint addrs_eqb (x y : list addr) : bool :=
  match x, y with
  | [], [] => true
  | a :: x', b :: y' => N.eqb a b && addrs_eqb x' y'
  | _, _ => false
  end.

Definition remove_id (i : N) (l : list entry) : list entry :=
  filter (fun e => negb (eid e =? i)) l.

Definition find_id (i : N) (l : list entry) : option entry :=
  find (fun e => eid e =? i) l.

Definition apply_tx (h t : N) (s : state) (x : tx) : state * bool :=
  match x with
  | TCreate signers auths ev acts txgas used =>
      if negb (validate_basic auths ev acts) then (s, false)
      else if negb (addrs_eqb signers auths) then (s, false)
      else match auths with
      | [] => (s, false)
      | owner :: _ =>
        if negb (event_valid_ctx h t ev) then (s, false)
        else if txgas <? used then (s, false)
        else let remaining := txgas - used in
        if remaining <? SetGasLimitCost then (s, false)     (* uint64 underflow, capped, then out of gas *)
        else
          let lim := N.min (remaining - SetGasLimitCost) MaximumTriggerGas in
          let tr := {| t_id := next_id s; t_owner := owner; t_event := ev; t_actions := acts;
                       t_auths := auths; t_prepaid := txgas |} in
          ({| reg := reg s ++ [(tr, lim)]; queue := queue s; next_id := next_id s + 1; bank := bank s |}, true)
      end
  | TDestroy who id =>
      if id =? 0 then (s, false)
      else match find_id id (reg s) with
      | None => (s, false)
      | Some e =>
          if negb (t_owner (fst e) =? who) then (s, false)
          else ({| reg := remove_id id (reg s); queue := queue s; next_id := next_id s; bank := bank s |}, true)
      end
  | TSend from to amt =>
      let a := {| a_from := from; a_to := to; a_amt := amt; a_co := [] |} in
      if can_send (bank s) a
      then ({| reg := reg s; queue := queue s; next_id := next_id s; bank := apply_send (bank s) a |}, true)
      else (s, false)
  end.

Fixpoint apply_txs (h t : N) (s : state) (l : list tx) : state * list bool :=
  match l with
  | [] => (s, [])
  | x :: r =>
      let '(s1, ok) := apply_tx h t s x in
      let '(s2, oks) := apply_txs h t s1 r in
      (s2, ok :: oks)
  end.

(** * Detection *)
Definition attr_matches (want : N * N) (got : N * N) : bool :=
  (fst want =? fst got) && ((snd want =? 0) || (snd want =? snd got)).

Definition tx_matches (name : N) (attrs : list (N * N)) (e : emitted) : bool :=
  (name =? em_type e) && forallb (fun w => existsb (attr_matches w) (em_attrs e)) attrs.

Definition listens (ty : N) (x : entry) : bool :=
  match t_event (fst x) with EvTx name _ => name =? ty | _ => false end.

Definition ev_matches (e : emitted) (x : entry) : bool :=
  match t_event (fst x) with EvTx name attrs => tx_matches name attrs e | _ => false end.

Fixpoint detect_tx (evs : list emitted) (r : list entry) (seen : list N) : list entry :=
  match evs with
  | [] => []
  | e :: rest =>
      let cands := filter (fun x => listens (em_type e) x && negb (mem (eid x) seen)) r in
      filter (ev_matches e) cands ++ detect_tx rest r (map eid cands ++ seen)
  end.

(** listener order: (order, id) *)
Definition key_le (a b : N * N) : bool :=
  (fst a <? fst b) || ((fst a =? fst b) && (snd a <=? snd b)).

Fixpoint insert_by (k : entry -> N * N) (x : entry) (l : list entry) : list entry :=
  match l with
  | [] => [x]
  | y :: r => if key_le (k x) (k y) then x :: l else y :: insert_by k x r
  end.

Definition sort_by (k : entry -> N * N) (l : list entry) : list entry :=
  fold_right (insert_by k) [] l.

Definition height_of (x : entry) : option N := match t_event (fst x) with EvHeight v => Some v | _ => None end.
Definition time_of (x : entry) : option N := match t_event (fst x) with EvTime v => Some v | _ => None end.

Definition ord_key (f : entry -> option N) (x : entry) : N * N :=
  (match f x with Some v => v | None => 0 end, eid x).

Definition ready (f : entry -> option N) (now : N) (x : entry) : bool :=
  match f x with Some v => v <=? now | None => false end.

Definition detect_height (h : N) (r : list entry) : list entry :=
  sort_by (ord_key height_of) (filter (ready height_of h) r).

Definition detect_time (t : N) (r : list entry) : list entry :=
  sort_by (ord_key time_of) (filter (ready time_of t) r).

Definition detect (h t : N) (evs : list emitted) (r : list entry) : list entry :=
  detect_tx evs r [] ++ detect_height h r ++ detect_time t r.

(** UnregisterTrigger + QueueTrigger for every detected trigger, in order. *)
Definition move_one (s : state) (e : entry) : state :=
  {| reg := remove_id (eid e) (reg s); queue := queue s ++ [e]; next_id := next_id s; bank := bank s |}.

Definition move_all (s : state) (d : list entry) : state := fold_left move_one d s.

(** * Blocks *)
Record block := { b_height : N; b_time : N; b_oracle : list N; b_txs : list tx; b_events : list emitted }.

Record bout := { o_disp : list (entry * bool); o_txres : list bool; o_det : list entry }.

Definition step (s : state) (b : block) : state * bout :=
  let '(s1, d) := dispatch MaximumActions 0 s (b_oracle b) in
  let '(s2, r) := apply_txs (b_height b) (b_time b) s1 (b_txs b) in
  let dt := detect (b_height b) (b_time b) (b_events b) (reg s2) in
  (move_all s2 dt, {| o_disp := d; o_txres := r; o_det := dt |}).

Fixpoint run (s : state) (bs : list block) : state * list bout :=
  match bs with
  | [] => (s, [])
  | b :: r =>
      let '(s1, o) := step s b in
      let '(s2, os) := run s1 r in
      (s2, o :: os)
  end.

(** The final state alone, as a fold. *)
Definition run_state (s : state) (bs : list block) : state := fold_left (fun st b => fst (step st b)) bs s.
