(** Several markets, creation fees, buyer ratio fees, governance-changed exchange splits, and the
    bank's send restrictions, on top of the single-market settlement model (property C01).

    Exchange/Settle.v models SettleOrders / FillBids / FillAsks / closeSettlement for ONE market
    configuration [config].  This file adds what the message handlers do around that core:

      x/exchange/keeper/orders.go        getAskOrders / getBidOrders: the order's market id must be
                                         the request's; CreateAskOrder / CreateBidOrder: collect the
                                         creation fee (CollectFee), store the order, place the hold
      x/exchange/keeper/fulfillment.go   FillBids / FillAsks: market accepting orders and allowing
                                         user settlement, validateCreateAskFees /
                                         validateCreateBidFees, the creation fee collected AFTER
                                         closeSettlement by its own CollectFee; SettleOrders:
                                         validateMarketExists, closeSettlement under
                                         markertypes.WithTransferAgents(ctx, admin)
      x/exchange/keeper/market.go        validateFlatFee, validateBuyerSettlementFee (flat and ratio
                                         options, one coin covering both), getFeeRatio
      x/exchange/keeper/keeper.go        DoTransfer: bankKeeper.BlockedAddr on every output;
                                         quarantine is bypassed for transfers
      x/exchange/keeper/params.go        GetExchangeSplit: the params in force when fees are collected
      x/exchange/msgs.go                 ValidateBasic: a creation fee, when given, is positive
    and the send restrictions that every bank send of a settlement passes through (app.go wires
    marker, then sanction, then quarantine):
      x/sanction/keeper/send_restriction.go   a sanctioned SENDER cannot send
      x/marker/keeper/send_restrictions.go    for active markers without required attributes, no
                                              deny list, no bypass: a send FROM a marker account
                                              needs a transfer agent with Withdraw; a send TO a
                                              restricted marker account needs Deposit (agent, or
                                              sender when there is no agent); a restricted denom
                                              never goes to the fee collector and needs Transfer
                                              access of a transfer agent or of the sender.
    A failing restriction, a blocked recipient or an unknown / foreign order fails the whole
    message (tx rollback), so these checks are guards in front of the single-market functions:
    the result is [Err] or exactly the single-market result.  Market permissions of the admin
    (C11), required attributes (C20) and admission of new orders (C20) are outside: creation is
    accepted iff the implementation accepted it, but its effect on funds is modelled.
    No proofs in this file. *)
From Coq Require Import ZArith List Bool PArith.
From PV Require Import Exchange.Arith.
From PV Require Export Exchange.SettleSpec.
Import ListNotations.
Open Scope Z_scope.
Open Scope res_scope.

Record market := {
  mk_addr : addr;                       (* the market's account *)
  mk_accepting : bool;                  (* accepting orders *)
  mk_user_settle : bool;                (* user settlement (FillBids / FillAsks) allowed *)
  mk_create_ask : coins;                (* create-ask flat fee options *)
  mk_create_bid : coins;                (* create-bid flat fee options *)
  mk_seller_flat : coins;
  mk_seller_ratios : list ratio;
  mk_buyer_flat : coins;
  mk_buyer_ratios : list ratio }.

Record params := { pr_default : Z; pr_splits : list (denom * Z) }.

(** A marker account: its address, its denom, whether the coin is restricted, and who has the
    Transfer / Withdraw / Deposit access.  All markers are active, without required attributes. *)
Record marker := {
  mr_addr : addr; mr_denom : denom; mr_restricted : bool;
  mr_transfer : list addr; mr_withdraw : list addr; mr_deposit : list addr }.

(** What does not change during a history. *)
Record world := {
  w_feecol : addr;
  w_blocked : list addr;                (* bank BlockedAddr: the module accounts *)
  w_markers : list marker }.

Record mstate := {
  ms_st : state;                               (* balances, holds, orders *)
  ms_market_of : list (positive * positive);   (* order id -> market id, for every order ever created *)
  ms_markets : list (positive * market);
  ms_params : params;
  ms_sanctioned : list addr }.

Definition mem (a : positive) (l : list positive) : bool := existsb (Pos.eqb a) l.

Fixpoint lookup {A} (l : list (positive * A)) (k : positive) : option A :=
  match l with
  | [] => None
  | (k', v) :: r => if Pos.eqb k k' then Some v else lookup r k
  end.

Fixpoint update {A} (l : list (positive * A)) (k : positive) (v : A) : list (positive * A) :=
  match l with
  | [] => [(k, v)]
  | (k', v') :: r => if Pos.eqb k k' then (k, v) :: r else (k', v') :: update r k v
  end.

Definition cfg_of (w : world) (m : market) (p : params) : config :=
  {| c_ratios := mk_seller_ratios m; c_splits := pr_splits p; c_default_split := pr_default p;
     c_seller_flat := mk_seller_flat m; c_buyer_flat := mk_buyer_flat m;
     c_market := mk_addr m; c_feecol := w_feecol w |}.

(** ** Send restrictions *)
Definition marker_at (w : world) (a : addr) : option marker :=
  find (fun m => Pos.eqb (mr_addr m) a) (w_markers w).
Definition restricted_marker (w : world) (d : denom) : option marker :=
  find (fun m => Pos.eqb (mr_denom m) d && mr_restricted m) (w_markers w).

(** validateSendDenom *)
Definition send_denom_ok (w : world) (agent : option addr) (from to : addr) (d : denom) : bool :=
  match restricted_marker w d with
  | None => true
  | Some m =>
      negb (Pos.eqb to (w_feecol w)) &&
      ((match agent with Some a => mem a (mr_transfer m) | None => false end) || mem from (mr_transfer m))
  end.

(** sanction + marker SendRestrictionFn for one (from, to, coins). *)
Definition send_allowed (w : world) (sanc : list addr) (agent : option addr) (from to : addr) (c : coins) : bool :=
  negb (mem from sanc) &&
  (match marker_at w from with
   | Some m => match agent with Some a => mem a (mr_withdraw m) | None => false end
   | None => true
   end) &&
  (match marker_at w to with
   | Some m => if mr_restricted m
               then match agent with Some a => mem a (mr_deposit m) | None => mem from (mr_deposit m) end
               else true
   | None => true
   end) &&
  forallb (fun x => send_denom_ok w agent from to (fst x)) c.

(** The (from, to, coins) triples the bank applies the restriction to: SendCoins for one input
    and one output, InputOutputCoinsProv per input (many inputs) or per output (many outputs). *)
Definition transfer_sends (t : transfer) : list (addr * addr * coins) :=
  match t_in t, t_out t with
  | [(fa, fc)], [(ta, _)] => [(fa, ta, fc)]
  | [(fa, _)], outs => map (fun e => (fa, fst e, snd e)) outs
  | ins, [(ta, _)] => map (fun e => (fst e, ta, snd e)) ins
  | _, _ => []
  end.

(** CollectFee / CollectFees: every payer to the market, then the exchange's share to the fee collector. *)
Definition fee_sends (cfg : config) (inputs : indexed) : list (addr * addr * coins) :=
  match inputs with
  | [] => []
  | _ =>
      let total := idx_total inputs in
      map (fun e => (fst e, c_market cfg, snd e)) inputs ++
      match calc_split cfg total with
      | Ok ex => if coins_is_zero ex then [] else [(c_market cfg, c_feecol cfg, ex)]
      | _ => []
      end
  end.

Definition sends_ok (w : world) (sanc : list addr) (agent : option addr) (l : list (addr * addr * coins)) : bool :=
  forallb (fun x => send_allowed w sanc agent (fst (fst x)) (snd (fst x)) (snd x)) l.

(** Everything closeSettlement sends: DoTransfer refuses blocked recipients. *)
Definition settlement_allowed (w : world) (sanc : list addr) (agent : option addr) (cfg : config) (s : settlement) : bool :=
  forallb (fun t => forallb (fun e => negb (mem (fst e) (w_blocked w))) (t_out t)) (s_transfers s) &&
  sends_ok w sanc agent (flat_map transfer_sends (s_transfers s) ++ fee_sends cfg (s_fee_inputs s)).

(** An order creation fee: validateFlatFee was passed (admission), a given fee is positive;
    CollectFee with no transfer agent. *)
Definition collect_creation_fee (w : world) (sanc : list addr) (cfg : config) (bal hold : amap)
    (payer : addr) (cfee : option coin) : res amap :=
  match cfee with
  | None => Ok bal
  | Some (d, z) =>
      if z <=? 0 then Err
      else if negb (sends_ok w sanc None (fee_sends cfg [(payer, [(d, z)])])) then Err
      else collect_fee cfg bal hold payer [(d, z)]
  end.

(** ** validateBuyerSettlementFee with flat and ratio options *)
Fixpoint get_ratio (rs : list ratio) (pd fd : denom) : option ratio :=
  match rs with
  | [] => None
  | r :: rest => if Pos.eqb (r_pd r) pd && Pos.eqb (r_fd r) fd then Some r else get_ratio rest pd fd
  end.

Definition get_flat (opts : coins) (d : denom) : option Z :=
  match find (fun x => Pos.eqb (fst x) d) opts with Some (_, a) => Some a | None => None end.

Definition nonempty {A} (l : list A) : bool := match l with [] => false | _ => true end.

Inductive part_res := PDone | PAmt (a : option Z).
Inductive bstep_res := BDone | BCont (flat_ok ratio_ok : bool).

Definition flat_part (flats : coins) (flat_req ratio_req ratio_ok : bool) (c : coin) : part_res :=
  if flat_req then
    match get_flat flats (fst c) with
    | None => PAmt None
    | Some f =>
        if snd c <? f then PAmt None
        else if negb ratio_req then PDone
        else if ratio_ok then PDone
        else PAmt (Some f)
    end
  else PAmt None.

Definition ratio_part (rs : list ratio) (flat_req ratio_req flat_ok : bool) (price : coin) (c : coin) : part_res :=
  if ratio_req then
    match get_ratio rs (fst price) (fst c) with
    | None => PAmt None
    | Some r =>
        match apply_loosely_chk (r_p r) (r_f r) (snd price) with
        | Some (Some (rfee, _)) =>
            if snd c <? rfee then PAmt None
            else if negb flat_req then PDone
            else if flat_ok then PDone
            else PAmt (Some rfee)
        | _ => PAmt None
        end
    end
  else PAmt None.

Definition is_some {A} (o : option A) : bool := match o with Some _ => true | None => false end.

Definition buyer_step (flats : coins) (rs : list ratio) (price : coin) (flat_ok ratio_ok : bool) (c : coin) : bstep_res :=
  let flat_req := nonempty flats in
  let ratio_req := nonempty rs in
  match flat_part flats flat_req ratio_req ratio_ok c with
  | PDone => BDone
  | PAmt fo =>
      match ratio_part rs flat_req ratio_req flat_ok price c with
      | PDone => BDone
      | PAmt ro =>
          match fo, ro with
          | Some f, Some rf => if snd c <? f + rf then BCont true true else BDone
          | _, _ => BCont (flat_ok || is_some fo) (ratio_ok || is_some ro)
          end
      end
  end.

Fixpoint buyer_loop (flats : coins) (rs : list ratio) (price : coin) (fee : coins) (flat_ok ratio_ok : bool) : bool :=
  match fee with
  | [] => false
  | c :: rest =>
      match buyer_step flats rs price flat_ok ratio_ok c with
      | BDone => true
      | BCont fo ro => buyer_loop flats rs price rest fo ro
      end
  end.

Definition validate_buyer_fee (flats : coins) (rs : list ratio) (price : coin) (fee : coins) : bool :=
  if negb (nonempty flats) && negb (nonempty rs) then true
  else buyer_loop flats rs price fee false false.

(** ** Operations *)
Inductive mop :=
| MCreate (mid : positive) (o : order) (cfee : option coin) (accepted : bool)
| MSettle (mid : positive) (admin : addr) (askids bidids : list positive) (expect_partial : bool)
| MFillBids (mid : positive) (seller : addr) (ids : list positive) (total_assets : coins)
            (flat : option coin) (cfee : option coin)
| MFillAsks (mid : positive) (buyer : addr) (ids : list positive) (total_price : coin)
            (fees : coins) (cfee : option coin)
| MSetParams (p : params)                                   (* governance: MsgUpdateParams *)
| MSetAccepting (mid : positive) (accepting : bool)          (* MsgMarketUpdateAcceptingOrders *)
| MSetUserSettle (mid : positive) (allow : bool)             (* MsgMarketUpdateUserSettle *)
| MSanction (a : addr) (on : bool).                         (* governance: sanction / unsanction *)

Definition in_market (ms : mstate) (mid : positive) (id : positive) : bool :=
  match lookup (ms_market_of ms) id with Some m => Pos.eqb m mid | None => false end.

Definition with_st (ms : mstate) (st : state) : mstate :=
  {| ms_st := st; ms_market_of := ms_market_of ms; ms_markets := ms_markets ms;
     ms_params := ms_params ms; ms_sanctioned := ms_sanctioned ms |}.

(** CreateAskOrder / CreateBidOrder after the admission checks. *)
Definition mcreate (w : world) (ms : mstate) (mid : positive) (o : order) (cfee : option coin) : res mstate :=
  m <- of_opt (lookup (ms_markets ms) mid) ;;
  let cfg := cfg_of w m (ms_params ms) in
  let st := ms_st ms in
  bal1 <- collect_creation_fee w (ms_sanctioned ms) cfg (st_bal st) (st_hold st) (o_owner o) cfee ;;
  hold1 <- add_hold bal1 (st_hold st) (o_owner o) (hold_amount o) ;;
  Ok {| ms_st := {| st_bal := bal1; st_hold := hold1; st_orders := st_orders st ++ [o] |};
        ms_market_of := ms_market_of ms ++ [(o_id o, mid)]; ms_markets := ms_markets ms;
        ms_params := ms_params ms; ms_sanctioned := ms_sanctioned ms |}.

(** SettleOrders *)
Definition msettle (w : world) (ms : mstate) (mid : positive) (admin : addr)
    (askids bidids : list positive) (e : bool) : res mstate :=
  m <- of_opt (lookup (ms_markets ms) mid) ;;
  let cfg := cfg_of w m (ms_params ms) in
  let st := ms_st ms in
  if negb (forallb (in_market ms mid) (askids ++ bidids)) then Err
  else
    asks <- get_orders (st_orders st) true askids None ;;
    bids <- get_orders (st_orders st) false bidids None ;;
    s <- build asks bids (match asks with a :: _ => ratio_lookup cfg (o_pd a) | [] => Err end) ;;
    if negb (settlement_allowed w (ms_sanctioned ms) (Some admin) cfg s) then Err
    else st' <- settle cfg st askids bidids e ;; Ok (with_st ms st').

(** The settlement FillBids builds (same expressions as in [fill_bids]). *)
Definition fill_bids_settlement (cfg : config) (st : state) (seller : addr) (ids : list positive)
    (flat : option coin) : res settlement :=
  bids <- get_orders (st_orders st) false ids (Some seller) ;;
  let total_assets := sum_assets bids in
  let total_price := sum_price bids in
  let flatc := match flat with Some (d, z) => coins_add1 [] d z | None => [] end in
  let aidx := fold_left (fun i o => idx_add i (o_owner o) [(o_ad o, o_assets o)]) bids [] in
  let pidx := fold_left (fun i o => idx_add i (o_owner o) [(o_pd o, o_price o)]) bids [] in
  let fidx := fold_left (fun i o => idx_add i (o_owner o) (o_fees o)) bids [] in
  let full := map (fun o => {| fo_order := o; fo_price := o_price o; fo_fees := o_fees o |}) bids in
  rf <- ratio_fees_of cfg total_price ;;
  let fidx' := idx_add fidx seller (coins_add flatc rf) in
  outs <- idx_get aidx ;;
  ins <- idx_get pidx ;;
  fi <- (match fidx' with [] => Ok [] | _ => idx_get fidx' end) ;;
  Ok {| s_transfers := [ {| t_in := [(seller, total_assets)]; t_out := outs |};
                         {| t_in := ins; t_out := [(seller, total_price)] |} ];
        s_fee_inputs := fi; s_full := full; s_partial := None; s_left := None |}.

Definition fill_asks_settlement (cfg : config) (st : state) (buyer : addr) (ids : list positive)
    (total_price : coin) (fees : coins) : res settlement :=
  asks <- get_orders (st_orders st) true ids (Some buyer) ;;
  let total_assets := sum_assets asks in
  full <- ask_fills cfg asks ;;
  let aidx := fold_left (fun i o => idx_add i (o_owner o) [(o_ad o, o_assets o)]) asks [] in
  let pidx := fold_left (fun i o => idx_add i (o_owner o) [(o_pd o, o_price o)]) asks [] in
  let fidx := fold_left (fun i f => idx_add i (o_owner (fo_order f)) (fo_fees f)) full [] in
  let fidx' := idx_add fidx buyer fees in
  ins <- idx_get aidx ;;
  outs <- idx_get pidx ;;
  fi <- (match fidx' with [] => Ok [] | _ => idx_get fidx' end) ;;
  Ok {| s_transfers := [ {| t_in := ins; t_out := [(buyer, total_assets)] |};
                         {| t_in := [(buyer, [total_price])]; t_out := outs |} ];
        s_fee_inputs := fi; s_full := full; s_partial := None; s_left := None |}.

(** FillBids *)
Definition mfill_bids (w : world) (ms : mstate) (mid : positive) (seller : addr) (ids : list positive)
    (total_assets : coins) (flat cfee : option coin) : res mstate :=
  m <- of_opt (lookup (ms_markets ms) mid) ;;
  let cfg := cfg_of w m (ms_params ms) in
  let st := ms_st ms in
  if negb (mk_accepting m && mk_user_settle m) then Err
  else if negb (validate_flat (mk_create_ask m) cfee) then Err
  else if negb (forallb (in_market ms mid) ids) then Err
  else
    s <- fill_bids_settlement cfg st seller ids flat ;;
    if negb (settlement_allowed w (ms_sanctioned ms) None cfg s) then Err
    else
      st1 <- fill_bids cfg st seller ids total_assets flat ;;
      bal2 <- collect_creation_fee w (ms_sanctioned ms) cfg (st_bal st1) (st_hold st1) seller cfee ;;
      Ok (with_st ms {| st_bal := bal2; st_hold := st_hold st1; st_orders := st_orders st1 |}).

(** FillAsks: the buyer's settlement fees are validated against flat AND ratio options. *)
Definition mfill_asks (w : world) (ms : mstate) (mid : positive) (buyer : addr) (ids : list positive)
    (total_price : coin) (fees : coins) (cfee : option coin) : res mstate :=
  m <- of_opt (lookup (ms_markets ms) mid) ;;
  let cfg := cfg_of w m (ms_params ms) in
  let st := ms_st ms in
  if negb (mk_accepting m && mk_user_settle m) then Err
  else if negb (validate_flat (mk_create_bid m) cfee) then Err
  else if negb (validate_buyer_fee (mk_buyer_flat m) (mk_buyer_ratios m) total_price fees) then Err
  else if negb (forallb (in_market ms mid) ids) then Err
  else
    s <- fill_asks_settlement cfg st buyer ids total_price fees ;;
    if negb (settlement_allowed w (ms_sanctioned ms) None cfg s) then Err
    else
      (* the single-market function re-checks the flat options only: give it none *)
      let cfg0 := {| c_ratios := c_ratios cfg; c_splits := c_splits cfg; c_default_split := c_default_split cfg;
                     c_seller_flat := c_seller_flat cfg; c_buyer_flat := [];
                     c_market := c_market cfg; c_feecol := c_feecol cfg |} in
      st1 <- fill_asks cfg0 st buyer ids total_price fees ;;
      bal2 <- collect_creation_fee w (ms_sanctioned ms) cfg (st_bal st1) (st_hold st1) buyer cfee ;;
      Ok (with_st ms {| st_bal := bal2; st_hold := st_hold st1; st_orders := st_orders st1 |}).

Definition set_flags (m : market) (acc us : bool) : market :=
  {| mk_addr := mk_addr m; mk_accepting := acc; mk_user_settle := us;
     mk_create_ask := mk_create_ask m; mk_create_bid := mk_create_bid m;
     mk_seller_flat := mk_seller_flat m; mk_seller_ratios := mk_seller_ratios m;
     mk_buyer_flat := mk_buyer_flat m; mk_buyer_ratios := mk_buyer_ratios m |}.

Definition with_market (ms : mstate) (mid : positive) (m : market) : mstate :=
  {| ms_st := ms_st ms; ms_market_of := ms_market_of ms; ms_markets := update (ms_markets ms) mid m;
     ms_params := ms_params ms; ms_sanctioned := ms_sanctioned ms |}.

Definition valid_params (p : params) : bool :=
  (0 <=? pr_default p) && (pr_default p <=? 10000) &&
  forallb (fun x => (0 <=? snd x) && (snd x <=? 10000)) (pr_splits p).

(** SetParams writes one store entry per denom, in list order: of two entries for one denom the
    LAST one stays (Params.Validate does not refuse duplicates); lookups below take the first
    match, so the stored list is the reversed one. *)
Definition stored_params (p : params) : params :=
  {| pr_default := pr_default p; pr_splits := rev (pr_splits p) |}.

Definition mrun_op (w : world) (ms : mstate) (o : mop) : res mstate :=
  match o with
  | MCreate mid ord cfee true => mcreate w ms mid ord cfee
  | MCreate _ _ _ false => Err
  | MSettle mid admin a b e => msettle w ms mid admin a b e
  | MFillBids mid s ids ta fl cf => mfill_bids w ms mid s ids ta fl cf
  | MFillAsks mid b ids tp fs cf => mfill_asks w ms mid b ids tp fs cf
  | MSetParams p =>
      if valid_params p
      then Ok {| ms_st := ms_st ms; ms_market_of := ms_market_of ms; ms_markets := ms_markets ms;
                 ms_params := stored_params p; ms_sanctioned := ms_sanctioned ms |}
      else Err
  | MSetAccepting mid acc =>
      m <- of_opt (lookup (ms_markets ms) mid) ;;
      if Bool.eqb (mk_accepting m) acc then Err     (* "already has accepting-orders" *)
      else Ok (with_market ms mid (set_flags m acc (mk_user_settle m)))
  | MSetUserSettle mid us =>
      m <- of_opt (lookup (ms_markets ms) mid) ;;
      if Bool.eqb (mk_user_settle m) us then Err
      else Ok (with_market ms mid (set_flags m (mk_accepting m) us))
  | MSanction a on =>
      Ok {| ms_st := ms_st ms; ms_market_of := ms_market_of ms; ms_markets := ms_markets ms;
            ms_params := ms_params ms;
            ms_sanctioned := if on then a :: ms_sanctioned ms
                             else filter (fun x => negb (Pos.eqb x a)) (ms_sanctioned ms) |}
  end.

Definition mstep (w : world) (ms : mstate) (o : mop) : mstate * bool :=
  match mrun_op w ms o with
  | Ok ms' => (ms', true)
  | _ => (ms, false)
  end.

Definition mrun (w : world) (ms : mstate) (ops : list mop) : mstate :=
  fold_left (fun s o => fst (mstep w s o)) ops ms.
