(** Model of exchange orders, sdk.Coins and [Order.Split] (property C01).

    Go sources transcribed here:
      x/exchange/orders.go   Order (ask / bid), GetSettlementFees, GetHoldAmount, Order.Split
      cosmos-sdk types       Coins.Add / Sub / IsZero as used by the exchange module

    Representation.  Denoms and addresses are interned to [positive] by the harness (only
    equality matters; the listing order of a Coins value never influences a result of the code
    modelled here, and every observable is compared after sorting by the interned id).  An
    [sdk.Coins] is a list of (denom, amount) sorted strictly by denom without zero amounts.
    An ask order carries at most one fee coin (Go: *sdk.Coin), a bid order an sdk.Coins.

    Assumed about inputs: orders satisfy Order.Validate (assets, price and every fee amount are
    positive), which the store guarantees for every stored order.  sdkmath.Int.Mul panics when
    the product needs more than 256 bits; that is the [chk] below ([Err] = the Go code returns an
    error or panics, the tx fails).  Additions stay far below 2^256 for amounts < 2^250 and are
    not checked.  No proofs in this file. *)
From Coq Require Import ZArith List Bool PArith.
From PV Require Import Exchange.Arith.
Import ListNotations.
Open Scope Z_scope.

(** ** Results: a value, a Go error/panic, or model fuel exhausted (never happens, see proofs). *)
Inductive res (A : Type) : Type := Ok (a : A) | Err | OutOfFuel.
Arguments Ok {A} a.
Arguments Err {A}.
Arguments OutOfFuel {A}.

Definition rbind {A B} (r : res A) (f : A -> res B) : res B :=
  match r with Ok a => f a | Err => Err | OutOfFuel => OutOfFuel end.

Declare Scope res_scope.
Delimit Scope res_scope with res.
Notation "x <- r ;; k" := (rbind r (fun x => k))
  (at level 61, r at next level, right associativity) : res_scope.
Notation "' p <- r ;; k" := (rbind r (fun p => k))
  (at level 61, p pattern, r at next level, right associativity) : res_scope.
Open Scope res_scope.

Definition of_opt {A} (o : option A) : res A := match o with Some a => Ok a | None => Err end.
Definition mulchk (a b : Z) : res Z := of_opt (chk (a * b)).

(** ** Coins *)
Definition denom := positive.
Definition addr := positive.
Definition coin := (denom * Z)%type.
Definition coins := list coin.

Fixpoint amount_of (c : coins) (d : denom) : Z :=
  match c with
  | [] => 0
  | (d', a) :: r => if Pos.eqb d d' then a else amount_of r d
  end.

(** Add one coin, keeping the list sorted and free of zero amounts (Coins.Add of one coin). *)
Fixpoint coins_add1 (c : coins) (d : denom) (a : Z) : coins :=
  match c with
  | [] => if a =? 0 then [] else [(d, a)]
  | (d', a') :: r =>
      match Pos.compare d d' with
      | Lt => if a =? 0 then c else (d, a) :: c
      | Eq => if a' + a =? 0 then r else (d', a' + a) :: r
      | Gt => (d', a') :: coins_add1 r d a
      end
  end.

Definition coins_add (x y : coins) : coins :=
  fold_left (fun acc c => coins_add1 acc (fst c) (snd c)) y x.

Definition coins_neg (x : coins) : coins := map (fun c => (fst c, - snd c)) x.
Definition coins_sub (x y : coins) : coins := coins_add x (coins_neg y).

(** Coins.IsZero: no coins, or all amounts zero. *)
Definition coins_is_zero (c : coins) : bool := forallb (fun x => snd x =? 0) c.
Definition coins_any_neg (c : coins) : bool := existsb (fun x => snd x <? 0) c.
(** Coins.IsAllPositive: at least one coin, all positive. *)
Definition coins_all_pos (c : coins) : bool :=
  match c with [] => false | _ => forallb (fun x => 0 <? snd x) c end.

Definition coin_eqb (x y : coin) : bool := Pos.eqb (fst x) (fst y) && Z.eqb (snd x) (snd y).
Fixpoint coins_eqb (x y : coins) : bool :=
  match x, y with
  | [], [] => true
  | a :: x', b :: y' => coin_eqb a b && coins_eqb x' y'
  | _, _ => false
  end.

(** ** Orders *)
Record order := {
  o_id : positive;
  o_ask : bool;            (* true = ask order, false = bid order *)
  o_owner : addr;          (* seller / buyer *)
  o_ad : denom; o_assets : Z;
  o_pd : denom; o_price : Z;
  o_fees : coins;          (* ask: optional seller settlement flat fee; bid: buyer settlement fees *)
  o_partial : bool }.

Definition with_amounts (o : order) (assets price : Z) (fees : coins) : order :=
  {| o_id := o_id o; o_ask := o_ask o; o_owner := o_owner o; o_ad := o_ad o; o_assets := assets;
     o_pd := o_pd o; o_price := price; o_fees := fees; o_partial := o_partial o |}.

(** GetHoldAmount: ask = assets + flat fee unless the fee is in the price denom;
    bid = price + buyer settlement fees. *)
Definition hold_amount (o : order) : coins :=
  if o_ask o then
    match o_fees o with
    | (fd, fa) :: _ =>
        if Pos.eqb fd (o_pd o) then [(o_ad o, o_assets o)]
        else coins_add1 [(o_ad o, o_assets o)] fd fa
    | [] => [(o_ad o, o_assets o)]
    end
  else coins_add1 (o_fees o) (o_pd o) (o_price o).

(** An ask order keeps only a single fee coin ([&fees[0]]). *)
Definition ask_fee (c : coins) : coins := match c with [] => [] | x :: _ => [x] end.

(** The per-fee-coin loop of Split: every fee coin must divide evenly. *)
Fixpoint split_fees (fees : coins) (k assets : Z) (acc : coins) : res coins :=
  match fees with
  | [] => Ok acc
  | (d, f) :: r =>
      m <- mulchk f k ;;
      let '(ff, rem) := quo_rem m assets in
      if negb (rem =? 0) then Err
      else if ff <? 0 then Err                    (* sdk.NewCoin panics on a negative amount *)
      else split_fees r k assets (coins_add1 acc d ff)
  end.

(** Order.Split: (filled, unfilled) or an error. *)
Definition split (o : order) (k : Z) : res (order * order) :=
  let assets := o_assets o in
  if k <=? 0 then Err                                  (* amount filled not positive *)
  else if k =? assets then Err                         (* amount filled equals order assets *)
  else if assets <? k then Err                         (* overfilled *)
  else if negb (o_partial o) then Err                  (* order does not allow partial fulfillment *)
  else
    pm <- mulchk (o_price o) k ;;
    let '(pf, prem) := quo_rem pm assets in
    if negb (prem =? 0) then Err                       (* price not evenly divisible *)
    else
      '(ffill, funfill) <-
        (if coins_is_zero (o_fees o) then Ok ([], [])
         else ff <- split_fees (o_fees o) k assets [] ;;
              let fu := coins_sub (o_fees o) ff in
              if coins_any_neg fu then Err else Ok (ff, fu)) ;;
      let fix_ask c := if o_ask o then ask_fee c else c in
      Ok (with_amounts o k pf (fix_ask ffill),
          with_amounts o (assets - k) (o_price o - pf) (fix_ask funfill)).
