(** Guard dominance over the generated control-flow paths (property C11, "guard recognition is
    syntactic" strengthened).

    Gen/GenHandlerPaths.v (regenerated from the Go source on every run by translate/goextract/paths.go)
    lists, for every MsgServer method of x/exchange/keeper/msg_server.go, for Keeper.CancelOrder /
    AcceptPayment / RejectPayment, and for every Msg handler of every module that has an Authority
    field or compares anything with the keeper's authority, EVERY path through the function body as
    an ordered list of events (guard taken pass/fail, state-writing call, return ok/err, panic,
    unstructured control flow).  This file holds the hand-written side:

      * which predicate is the documented guard of which endpoint ([acceptable], read off the same
        documented tables as Exchange/Perms.v and Exchange/GovGuards.v),
      * the checker [path_guarded]: before the first EFFECT of a path (a state-writing call or a
        successful return) the path has taken the PASS branch of an acceptable guard; no path
        contains unstructured control flow,
      * Query handlers: every call that can write is made on a context branched by CacheContext()
        in the same function, or is on the reviewed list of calls whose name the translator's
        read-only patterns do not cover,
      * how the authority is used by handlers whose request has NO Authority field, and what the
        keepers' authority is initialised with.

    No proofs here (Proofs/GuardPathsProofs.v). *)
From Coq Require Import List String Bool.
From PV Require Export Exchange.PermTypes.
From PV Require Import Exchange.Perms Exchange.GovGuards Gen.GenExchangePerms Gen.GenGovEndpoints Gen.GenHandlerPaths.
Import ListNotations.
Open Scope string_scope.

(* ------------------------------------------------------------------ equality of predicates *)

Fixpoint gpred_eqb (a b : gpred) {struct a} : bool :=
  let fix list_eqb (l1 l2 : list gpred) {struct l1} : bool :=
    match l1, l2 with
    | [], [] => true
    | x :: r1, y :: r2 => gpred_eqb x y && list_eqb r1 r2
    | _, _ => false
    end in
  match a, b with
  | GCan h m c, GCan h' m' c' => (h =? h') && (m =? m') && (c =? c')
  | GAuth w v, GAuth w' v' => (w =? w') && (v =? v')
  | GEq x y, GEq x' y' => (x =? x') && (y =? y')
  | GCallOk t, GCallOk t' => t =? t'
  | GAny l, GAny l' => list_eqb l l'
  | GAll l, GAll l' => list_eqb l l'
  | _, _ => false
  end.

(* ------------------------------------------------------------------ the checker *)

(** An effect: what must not happen on a path that has not passed the guard. *)
Definition is_effect (e : ev) : bool :=
  match e with
  | EvWrite _ _ => true
  | EvRet true => true
  | _ => false
  end.

(** Before the first effect of the path, the PASS branch of an acceptable guard was taken. *)
Fixpoint path_guarded (acc : gpred -> bool) (p : list ev) : bool :=
  match p with
  | [] => true
  | EvGuard true g :: r => if acc g then true else path_guarded acc r
  | e :: r => if is_effect e then false else path_guarded acc r
  end.

Definition structured (p : list ev) : bool :=
  forallb (fun e => match e with EvUnstructured _ => false | _ => true end) p.

(** Never an effect at all (deprecated endpoints: the body is an unconditional error). *)
Definition effect_free (p : list ev) : bool := negb (existsb is_effect p).

(* ------------------------------------------------------------------ exchange endpoints *)

(** The guard an exchange endpoint is documented to have (Exchange/Perms.v [documented_endpoints]),
    as a predicate over the request: the Can* helper testing exactly the documented permission, on
    the request's own MarketId and Admin; ValidateAuthority (through an accepted body) on the request's
    Authority. *)
Definition acceptable (q : requirement) (g : gpred) : bool :=
  match q, g with
  | RPerm p, GCan h m c =>
      (m =? "msg.MarketId") && (c =? "msg.Admin") &&
      match helper_perm h with Some p' => perm_eqb p p' | None => false end
  | RAuthority, GAuth who via => (who =? "msg.Authority") && via_ok "exchange" via
  | _, _ => false
  end.

Definition exchange_row_ok (r : hp_row) : bool :=
  forallb structured (hp_paths r) &&
  match documented_requirement (hp_endpoint r) with
  | RDelegated _ => true
  | RUnknown => false
  | q => forallb (path_guarded (acceptable q)) (hp_paths r)
  end.

Definition exchange_rows : list hp_row := filter (fun r => hp_kind r =? "exchange") gen_exchange_paths.
Definition keeper_rows : list hp_row := filter (fun r => hp_kind r =? "keeper") gen_exchange_paths.

(** The path table covers exactly the endpoints of the guard table, in the same order. *)
Definition same_endpoints : bool :=
  strings_eqb (map hp_endpoint exchange_rows) (map ep_name gen_endpoints).

(* ------------------------------------------------------------------ keeper functions with their own checks *)

Definition stored_payment_accept : string :=
  "k.requirePaymentFromStore(k.getStore(ctx), sdk.AccAddressFromBech32(#1.Source), #1.ExternalId)".
Definition stored_payment_reject : string := "k.requirePaymentFromStore(k.getStore(ctx), #2, #3)".

(** CancelOrder(ctx, #1 orderID, #2 signer): signer is the order's owner, or passes the helper that
    tests PERMISSION_CANCEL on the ORDER'S market.  AcceptPayment(ctx, #1 payment): the provided target
    equals the stored payment's target (the handler's signer is payment.target, [C11_payment_tables]).
    RejectPayment(ctx, #1 target, #2 source, #3 externalID): the target equals the stored payment's.
    SetOrderExternalID: the request's market equals the order's market. *)
Definition keeper_acceptable (name : string) (g : gpred) : bool :=
  if name =? "CancelOrder" then
    match g with
    | GAny [GEq a b; GCan h m c] | GAny [GCan h m c; GEq a b] =>
        (a =? "#2") && (b =? "k.GetOrder(ctx, #1).GetOwner()") &&
        (m =? "k.GetOrder(ctx, #1).GetMarketID()") && (c =? "#2") &&
        match helper_perm h with Some PCancel => true | _ => false end
    | _ => false
    end
  else if name =? "SetOrderExternalID" then
    (* SetOrderExternalID(ctx, #1 marketID, #2 orderID, #3 newExternalID): the market named by the
       request is the ORDER'S market *)
    gpred_eqb g (GEq "#1" "k.getOrderFromStore(k.getStore(ctx), #2).GetMarketID()")
  else if name =? "AcceptPayment" then
    gpred_eqb g (GEq "#1.Target" (stored_payment_accept ++ ".Target"))
  else if name =? "RejectPayment" then
    gpred_eqb g (GEq "#1.String()" (stored_payment_reject ++ ".Target"))
  else false.

(** For the keeper functions only WRITES are effects that need the check (they return nil on
    success, after the writes). *)
Definition keeper_row_ok (r : hp_row) : bool :=
  forallb structured (hp_paths r) &&
  forallb (path_guarded (keeper_acceptable (hp_endpoint r))) (hp_paths r).

Definition keeper_names_ok : bool :=
  strings_eqb (map hp_endpoint keeper_rows) ["CancelOrder"; "SetOrderExternalID"; "AcceptPayment"; "RejectPayment"].

(** MarketSetOrderExternalID hands the request's MarketId and OrderId to SetOrderExternalID in these
    positions (so "#1" above is the request's market and "#2" the order acted on). *)
Definition set_ids_delegation_ok : bool :=
  existsb (fun r => (hp_kind r =? "exchange") && (hp_endpoint r =? "MarketSetOrderExternalID") &&
                    existsb (existsb (fun e => match e with
                                               | EvWrite c t => (c =? "SetOrderExternalID") &&
                                                   (t =? "k.SetOrderExternalID(ctx, msg.MarketId, msg.OrderId, msg.ExternalId)")
                                               | _ => false end)) (hp_paths r))
          gen_exchange_paths
  && forallb (fun r => negb ((hp_kind r =? "exchange") && (hp_endpoint r =? "MarketSetOrderExternalID")) ||
                       forallb (forallb (fun e => match e with
                                                  | EvWrite c t => (t =? "k.SetOrderExternalID(ctx, msg.MarketId, msg.OrderId, msg.ExternalId)")
                                                  | _ => true end)) (hp_paths r))
             gen_exchange_paths.

(* ------------------------------------------------------------------ Msg handlers of every module *)

Definition is_authority_pred (field : string) (module : string) (g : gpred) : bool :=
  match g with
  | GAuth who via => (who =? field) && via_ok module via
  | _ => false
  end.

(** The documented alternative of the endpoints that carry an Authority field but are not
    governance-only (same documentation as Exchange/GovGuards.v [documented_not_gov_only]). *)
Definition msg_acceptable (module endpoint : string) (g : gpred) : bool :=
  if (module =? "marker") && (endpoint =? "UpdateSendDenyList") then
    is_authority_pred "msg.Authority" module g
    || gpred_eqb g (GCallOk "k.GetMarkerByDenom(ctx, msg.Denom).ValidateHasAccess(msg.Authority, types.Access_Transfer)")
  else if (module =? "name") && (endpoint =? "ModifyName") then
    match g with
    | GAny [a; GEq x y] | GAny [GEq x y; a] =>
        is_authority_pred "msg.Authority" module a &&
        (x =? "k.Keeper.GetRecordByName(ctx, msg.Record.Name).Address") && (y =? "msg.Authority")
    | _ => false
    end
  else if (module =? "trigger") && (endpoint =? "DestroyTrigger") then
    gpred_eqb g (GEq "k.GetTrigger(ctx, msg.Id).GetOwner()" "msg.Authority")
  else is_authority_pred "msg.Authority" module g.

Definition is_open_endpoint (module endpoint : string) : bool :=
  (module =? "oracle") && (endpoint =? "SendQueryOracle").

Definition msg_row_ok (r : hp_row) : bool :=
  forallb structured (hp_paths r) &&
  (if hp_has_field r then
     is_open_endpoint (hp_module r) (hp_endpoint r)
     || forallb (path_guarded (msg_acceptable (hp_module r) (hp_endpoint r))) (hp_paths r)
   else true).

(** "Governance-only on SOME expression": every effect is preceded by the pass branch of a bare
    authority comparison. *)
Definition any_authority_pred (g : gpred) : bool :=
  match g with GAuth _ _ => true | _ => false end.
Definition gov_only_by_paths (r : hp_row) : bool :=
  forallb (path_guarded any_authority_pred) (hp_paths r)
  && existsb (existsb is_effect) (hp_paths r).

(** Handlers whose request has NO Authority field but that compare a field with the keeper's
    authority: (module, endpoint, what is compared).  Reviewed: in each of them the authority is an
    ALTERNATIVE to a right over the object (marker access / market permission), never the only way in:
      marker AddMarker                FromAddress        governance may create markers in any status
      marker UpdateRequiredAttributes TransferAuthority  or ACCESS_TRANSFER on the marker
      marker SetAccountData           Signer             or ACCESS_DEPOSIT on the marker
      marker AddNetAssetValues        Administrator      or any access on the marker
      exchange MarketUpdateAcceptingCommitments Admin    inside the PERMISSION_UPDATE guard: the
                                                         authority skips one validation *)
Definition documented_authority_uses : list (string * string * list string) := [
  ("exchange", "MarketUpdateAcceptingCommitments", ["msg.Admin"]);
  ("marker", "AddMarker", ["msg.FromAddress"]);
  ("marker", "UpdateRequiredAttributes", ["msg.TransferAuthority"]);
  ("marker", "SetAccountData", ["msg.Signer"]);
  ("marker", "AddNetAssetValues", ["msg.Administrator"])
].

Definition fieldless_rows : list hp_row := filter (fun r => negb (hp_has_field r)) gen_msg_paths.

Fixpoint uses_match (doc : list (string * string * list string)) (rows : list hp_row) : bool :=
  match doc, rows with
  | [], [] => true
  | (m, e, who) :: doc', r :: rows' =>
      (m =? hp_module r) && (e =? hp_endpoint r) && strings_eqb who (hp_auth_who r)
      && negb (gov_only_by_paths r) && uses_match doc' rows'
  | _, _ => false
  end.

(** Every row with an Authority field corresponds to a row of the guard table, and vice versa. *)
Definition field_rows : list hp_row := filter hp_has_field gen_msg_paths.
Definition same_gov_rows : bool :=
  strings_eqb (map (fun r => hp_module r ++ "." ++ hp_endpoint r) field_rows)
              (map (fun r => gv_module r ++ "." ++ gv_endpoint r) gen_gov_endpoints).

(** A governance-only row of the guard table is governance-only by paths, unless it rejects everybody. *)
Definition gov_rows_agree : bool :=
  forallb (fun r =>
    match find (fun g => (gv_module g =? hp_module r) && (gv_endpoint g =? hp_endpoint r)) gen_gov_endpoints with
    | None => false
    | Some g =>
        match exception_of g, gv_guard g with
        | None, GvReject => forallb effect_free (hp_paths r)
        | None, _ => gov_only_by_paths r
        | Some _, _ => negb (gov_only_by_paths r) || is_open_endpoint (hp_module r) (hp_endpoint r)
        end
    end) field_rows.

(* ------------------------------------------------------------------ what the authority is *)

(** Every keeper's authority is the governance module account: the expression its authority field is
    initialised with (constructor parameters resolved through app/app.go), modulo the import alias. *)
Definition accepted_authority_sources : list string := [
  "authtypes.NewModuleAddress(govtypes.ModuleName).String()";
  "cosmosauthtypes.NewModuleAddress(govtypes.ModuleName).String()"
].

Definition authority_sources_ok : bool :=
  forallb (fun a => existsb (String.eqb (snd a)) accepted_authority_sources) gen_authority_sources
  (* every module that has an authority function, or a governance row, has a source *)
  && forallb (fun g => existsb (fun a => fst a =? gv_module g) gen_authority_sources
                       || match gv_guard g with GvAuthority _ | GvAuthorityOr _ => false | _ => true end)
             gen_gov_endpoints.

(** Who consults the authority at all.  Every method under x/ whose body reads its receiver's
    authority is one of: the three accessor functions; a Msg handler that is in the path table (and
    so under the obligations above); or one of the reviewed others:
      exchange Keeper.HasPermission                 the authority short-circuit (shape pinned by
                                                    [has_permission_shape_ok])
      exchange QueryServer.ValidateCreateMarket /   the dry-run queries compare the authority STRING of
               ValidateManageFees                   the request they validate; they must not write
                                                    ([query_row_ok], C11_queries_are_read_only) *)
Definition documented_other_mentions : list (string * string) := [
  ("exchange", "QueryServer.ValidateCreateMarket");
  ("exchange", "QueryServer.ValidateManageFees");
  ("exchange", "Keeper.HasPermission")
].

Definition authority_mention_ok (m : string * string * string) : bool :=
  let '(module, func, name) := m in
  (name =? "GetAuthority") || (name =? "IsAuthority") || (name =? "ValidateAuthority")
  || existsb (fun r => (hp_module r =? module) && (hp_endpoint r =? name)) gen_msg_paths
  || existsb (fun d => (fst d =? module) && (snd d =? func)) documented_other_mentions.

Definition authority_mentions_ok : bool :=
  forallb authority_mention_ok gen_authority_mentions
  && forallb (fun d => existsb (fun m => let '(module, func, _) := m in (fst d =? module) && (snd d =? func)) gen_authority_mentions)
             documented_other_mentions.

(* ------------------------------------------------------------------ Query handlers *)

(** Calls in Query handlers whose NAME the translator's read-only patterns do not cover, reviewed as
    not writing state: (module, callee). *)
Definition reviewed_query_calls : list (string * string) := [
  ("attribute", "UTC"); ("attribute", "After");           (* time.Time methods on ctx.BlockTime() *)
  ("hold", "paginateAllHolds");                            (* query.FilteredPaginate over the store *)
  ("marker", "accountForDenomOrAddress");                  (* GetMarker / GetMarkerByDenom *)
  ("marker", "DenomOwners");                               (* bank query *)
  ("metadata", "readScopeBz"); ("metadata", "PopulateScopeValueOwner");  (* unmarshal; bank read into the struct *)
  ("msgfees", "simulateFunc"); ("msgfees", "MulRaw");     (* baseapp simulation (own branch); arithmetic *)
  ("oracle", "SmartContractState");                        (* wasm smart query *)
  ("quarantine", "bzToQuarantineRecord")                   (* unmarshal *)
].

Definition query_write_ok (module : string) (w : qh_write) : bool :=
  qw_branched w || existsb (fun d => (fst d =? module) && (snd d =? qw_call w)) reviewed_query_calls.

Definition query_row_ok (r : qh_row) : bool :=
  match qh_unstructured r with [] => true | _ => false end &&
  forallb (query_write_ok (qh_module r)) (qh_writes r).

(** Does the named exchange Query handler make every state-writing call on a branched context?
    ([false] also when the handler is not in the table.)  The world model (Exchange/PermWorld.v)
    DEFINES the effect of a query step by this. *)
Definition query_branches (endpoint : string) : bool :=
  match find (fun r => (qh_module r =? "exchange") && (qh_endpoint r =? endpoint)) gen_query_handlers with
  | Some r => query_row_ok r
  | None => false
  end.

(** The dry-run queries really are the ones that call writing keeper code. *)
Definition exchange_writing_queries : list string :=
  map qh_endpoint (filter (fun r => (qh_module r =? "exchange") && match qh_writes r with [] => false | _ => true end) gen_query_handlers).
