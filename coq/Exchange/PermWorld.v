(** Histories over the permission store: grants and revocations, market creation, calls of the
    market endpoints, and the dry-run queries (property C11).

    Transcribed Go (repository under check, x/exchange/keeper):
      market.go      CreateMarket (the market account must not exist yet), storeMarket ->
                     setAccessGrants = revokeAllMarketPermissions (delete everything under the market's
                     permission prefix) followed by grantPermissions for every AccessGrant of the request
      msg_server.go  GovCreateMarket = ValidateAuthority + CreateMarket; MarketManagePermissions
                     (Exchange/Perms.v [manage_permissions]); the guard of every other Market* endpoint
                     ([endpoint_allowed], defined from the generated guard table)
      grpc_query.go  ValidateCreateMarket: ValidateBasic, ValidateAuthority(msg.Authority) (a STRING
                     comparison: a query has no signer), then Keeper.CreateMarket on a context that the
                     generated table says is / is not branched by CacheContext() in the same function

    The effect of a query step is DEFINED by the generated table (Exchange/GuardPaths.v
    [query_branches]): when the handler branches the context the step returns the old world; otherwise
    it keeps what CreateMarket wrote.  So [C11_queries_are_read_only] holds exactly as long as the
    table says every writing call of a Query handler is made on a branched context.

    Abstracted: the market account exists iff the market id is in [w_markets] (accounts at market
    addresses are only created by CreateMarket); market id 0 ("next free id") is resolved by the
    harness before the case is written; fees, flags, required attributes, orders, commitments and
    bank balances are outside this model: a call of a market endpoint other than
    MarketManagePermissions leaves the world of this model unchanged and its result is "got past the
    guard" (the harness runs such calls on a throw-away branch and makes them otherwise valid). *)
From Coq Require Import List String Bool NArith.
From PV Require Export Exchange.Perms.
From PV Require Import Exchange.GuardPaths.
Import ListNotations.
Open Scope string_scope.

Record world := { w_grants : store; w_markets : list N }.

Record create_req := { c_market : N; c_grants : list (N * list perm) }.

Definition grant_in_market (m : N) (g : grant) : bool := let '(m', _, _) := g in N.eqb m' m.

(** revokeAllMarketPermissions: deleteAll under the market's permission prefix. *)
Definition revoke_market (st : store) (m : N) : store := filter (fun g => negb (grant_in_market m g)) st.

(** setAccessGrants *)
Definition set_access_grants (st : store) (m : N) (ags : list (N * list perm)) : store :=
  fold_left (fun s ag => grant_perms s m (fst ag) (snd ag)) ags (revoke_market st m).

Definition market_exists (w : world) (m : N) : bool := existsb (N.eqb m) (w_markets w).

(** Keeper.CreateMarket as far as this model goes. *)
Definition create_market (w : world) (c : create_req) : world * bool :=
  if market_exists w (c_market c) then (w, false)
  else ({| w_grants := set_access_grants (w_grants w) (c_market c) (c_grants c);
           w_markets := c_market c :: w_markets w |}, true).

Inductive wop :=
| WManage (admin : N) (r : upd_req)              (* MsgMarketManagePermissionsRequest *)
| WCreate (caller : N) (c : create_req)          (* MsgGovCreateMarketRequest signed by caller *)
| WCall (ep : string) (market caller : N)        (* any other market endpoint *)
| WQuery (name : string) (authority_field : N) (c : create_req).
    (* Query/<name> carrying a MsgGovCreateMarketRequest whose authority FIELD is [authority_field] *)

Definition wstep (auth : N) (w : world) (op : wop) : world * bool :=
  match op with
  | WManage admin r =>
      let '(st', ok) := manage_permissions auth (w_grants w) admin r in
      ({| w_grants := st'; w_markets := w_markets w |}, ok)
  | WCreate caller c =>
      if endpoint_allowed "GovCreateMarket" auth (w_grants w) (c_market c) caller
      then create_market w c else (w, false)
  | WCall ep market caller => (w, endpoint_allowed ep auth (w_grants w) market caller)
  | WQuery name a c =>
      (* the dry run reports success iff the authority string matches and CreateMarket would go through *)
      let '(w', ok) := if is_authority auth a then create_market w c else (w, false) in
      (if query_branches name then w else w', ok)
  end.

Definition wrun (auth : N) (w : world) (ops : list wop) : world :=
  fold_left (fun s op => fst (wstep auth s op)) ops w.

Definition is_query (op : wop) : bool := match op with WQuery _ _ _ => true | _ => false end.

(** The (account, permission) pairs a creation request lists. *)
Definition lists_grant (c : create_req) (a : N) (p : perm) : bool :=
  existsb (fun ag => N.eqb a (fst ag) && existsb (perm_eqb p) (snd ag)) (c_grants c).

(** What a MarketManagePermissions request revokes / grants for (account, permission). *)
Definition revokes (r : upd_req) (a : N) (p : perm) : bool :=
  existsb (N.eqb a) (u_revoke_all r)
  || existsb (fun ag => N.eqb a (fst ag) && existsb (perm_eqb p) (snd ag)) (u_to_revoke r).
Definition grants (r : upd_req) (a : N) (p : perm) : bool :=
  existsb (fun ag => N.eqb a (fst ag) && existsb (perm_eqb p) (snd ag)) (u_to_grant r).
