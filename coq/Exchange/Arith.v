(** Model of the integer / fixed-point arithmetic behind every ratio, basis-point and
    NAV based charge (property C19).

    Go sources transcribed here (function by function):
      x/exchange/helpers.go            QuoRemInt, QuoIntRoundUp
      x/exchange/market.go             FeeRatio.applyLooselyTo / ApplyTo / ApplyToLoosely
      x/exchange/keeper/keeper.go      CalculateExchangeSplit (per coin)
      x/exchange/keeper/commitments.go CalculateCommitmentSettlementFee (arithmetic core)
      x/msgfees/types/fee.go           SplitCoinByBips
    sdkmath.Int is an arbitrary-precision integer that panics when a result needs more than
    256 bits; LegacyDec is an integer count of 10^-18 units that panics outside
    +-(2^256 * 10^18) after Add/Mul.  The total functions below are the mathematical content;
    the [*_chk] variants thread the overflow panics as [None].  No proofs in this file. *)
From Coq Require Import ZArith List Bool.
Import ListNotations.
Open Scope Z_scope.

(** ** big.Int QuoRem: T-division (truncate toward zero). *)
Definition quo_rem (a b : Z) : Z * Z := (Z.quot a b, Z.rem a b).

(** QuoIntRoundUp: quotient, moved one away from zero when there is a remainder. *)
Definition quo_round_up (a b : Z) : Z :=
  let '(rv, rem) := quo_rem a b in
  if Z.eqb rem 0 then rv
  else
    let shift :=
      if orb (Z.ltb rv 0) (andb (Z.eqb rv 0) (Z.ltb (Z.sgn a * Z.sgn b) 0)) then (-1) else 1 in
    rv + shift.

(** FeeRatio.applyLooselyTo on amounts: ratio price amount [rp], ratio fee amount [rf],
    order price amount [p].  The Go code errors when [rp = 0] (and on a denom mismatch, which
    is outside the arithmetic). Returns (amount, mustRound). *)
Definition apply_loosely (rp rf p : Z) : option (Z * bool) :=
  if Z.eqb rp 0 then None
  else
    let '(rv, rem) := quo_rem (p * rf) rp in
    let must_round := negb (Z.eqb rem 0) in
    Some (if must_round then rv + 1 else rv, must_round).

(** FeeRatio.ApplyTo: errors when rounding would be needed. *)
Definition apply_to (rp rf p : Z) : option Z :=
  match apply_loosely rp rf p with
  | Some (amt, false) => Some amt
  | _ => None
  end.

Definition apply_to_loosely (rp rf p : Z) : option Z :=
  match apply_loosely rp rf p with
  | Some (amt, _) => Some amt
  | None => None
  end.

(** One coin of CalculateExchangeSplit: [split] is the per-denom basis points (0..10000). *)
Definition ten_k : Z := 10000.
Definition twenty_k : Z := 20000.
Definition exchange_split (amt split : Z) : Z :=
  if Z.eqb amt 0 then 0 else if Z.eqb split 0 then 0 else quo_round_up (amt * split) ten_k.

(** ** LegacyDec: value * 10^18 stored as an integer. *)
Definition dec_one : Z := 10 ^ 18.
Definition dec_of_int (x : Z) : Z := x * dec_one.
Definition dec_quo_int (d n : Z) : Z := Z.quot d n.           (* big.Int Quo: truncation *)
Definition dec_truncate_int (d : Z) : Z := Z.quot d dec_one.
Definition dec_is_integer (d : Z) : bool := Z.eqb (Z.rem d dec_one) 0.

(** Arithmetic core of CalculateCommitmentSettlementFee.  The inputs are the per-denom
    totals of the request (Go first sums the inputs into an sdk.Coins):
      [fee_amt]   total already in the fee denom,
      [conv_amt]  total in the market's intermediary denom,
      [others]    (amount, nav price amount, nav assets amount) per other denom,
      [tfp]/[tfa] the intermediary->fee NAV (price/assets), 1/1 when the denoms coincide,
      [bips]      the market's commitment settlement bips. *)
Record cfee_in := { ci_fee : Z; ci_conv : Z; ci_others : list (Z * Z * Z);
                    ci_tfp : Z; ci_tfa : Z; ci_bips : Z }.

Definition other_dec (o : Z * Z * Z) : Z :=
  let '(amt, np, na) := o in dec_quo_int (dec_of_int (amt * np)) na.

Definition conv_dec (i : cfee_in) : Z :=
  fold_left (fun acc o => acc + other_dec o) (ci_others i) (dec_of_int (ci_conv i)).

Definition conv_amt (i : cfee_in) : Z :=
  let d := conv_dec i in
  let t := dec_truncate_int d in
  if dec_is_integer d then t else t + 1.

Definition fee_denom_total (i : cfee_in) : Z :=
  ci_fee i + quo_round_up (conv_amt i * ci_tfp i) (ci_tfa i).

Definition commitment_fee (i : cfee_in) : Z :=
  quo_round_up (fee_denom_total i * ci_bips i) twenty_k.

(** ** SplitCoinByBips (x/msgfees/types/fee.go), after the fix commit that builds the decimal
    from the Int instead of going through Int64().
      percentage = bips / 10000                      (LegacyDec Quo: exact, 10^4 | 10^18)
      bipsAmount = (amount * percentage).TruncateInt (LegacyDec Mul rounds half-even at 10^-18;
                                                      the product here is exact)            *)
Definition chop_round (x : Z) : Z :=
  (* chopPrecisionAndRound for x >= 0: divide by 10^18 rounding half to even *)
  let q := Z.quot x dec_one in
  let r := Z.rem x dec_one in
  let half := dec_one / 2 in
  if Z.ltb r half then q
  else if Z.ltb half r then q + 1
  else if Z.even q then q else q + 1.

Definition dec_mul (a b : Z) : Z := chop_round (a * b).
(* LegacyDec.QuoMut: multiply by 10^36, big.Int Quo, then chopPrecisionAndRound
   (operands are nonnegative in every use modelled here). *)
Definition dec_quo (a b : Z) : Z := chop_round (Z.quot (a * (dec_one * dec_one)) b).

Definition split_by_bips (amt bips : Z) : option (Z * Z) :=
  if Z.ltb ten_k bips then None
  else if Z.eqb bips ten_k then Some (amt, 0)
  else
    let percentage := dec_quo (dec_of_int bips) (dec_of_int ten_k) in
    let bips_amount := dec_truncate_int (dec_mul (dec_of_int amt) percentage) in
    Some (bips_amount, amt - bips_amount).

(** ** Overflow-checked variants: [None] = the Go code panics (the tx fails). *)
Definition int_max : Z := 2 ^ 256.
Definition int_ok (x : Z) : bool := Z.ltb (Z.abs x) int_max.
Definition chk (x : Z) : option Z := if int_ok x then Some x else None.
Definition dec_max : Z := 2 ^ 256 * dec_one.
Definition dec_okb (x : Z) : bool := Z.ltb (Z.abs x) dec_max.

Definition obind {A B} (o : option A) (f : A -> option B) : option B :=
  match o with Some a => f a | None => None end.

Definition apply_loosely_chk (rp rf p : Z) : option (option (Z * bool)) :=
  (* outer None = panic; inner None = returned error *)
  if Z.eqb rp 0 then Some None
  else obind (chk (p * rf)) (fun m =>
       let '(rv, rem) := quo_rem m rp in
       let must_round := negb (Z.eqb rem 0) in
       obind (chk (if must_round then rv + 1 else rv)) (fun r => Some (Some (r, must_round)))).

Definition exchange_split_chk (amt split : Z) : option Z :=
  if Z.eqb amt 0 then Some 0 else if Z.eqb split 0 then Some 0
  else obind (chk (amt * split)) (fun m => chk (quo_round_up m ten_k)).

Definition split_by_bips_chk (amt bips : Z) : option (option (Z * Z)) :=
  if Z.ltb ten_k bips then Some None
  else if Z.eqb bips ten_k then Some (Some (amt, 0))
  else
    let percentage := dec_quo (dec_of_int bips) (dec_of_int ten_k) in
    let prod := dec_mul (dec_of_int amt) percentage in
    if dec_okb prod then
      let b := dec_truncate_int prod in
      obind (chk b) (fun b => obind (chk (amt - b)) (fun rest => Some (Some (b, rest))))
    else None.

(* LegacyDec.Add asserts the valid range after each addition; Int.Mul/Add panic beyond 256 bits. *)
Definition conv_dec_chk (i : cfee_in) : option Z :=
  fold_left (fun acc o =>
     obind acc (fun a =>
       let '(amt, np, na) := o in
       if Z.eqb na 0 then None (* big.Int Quo by zero panics: a stored NAV may have volume 0 *) else
       obind (chk (amt * np)) (fun m =>
         let s := a + dec_quo_int (dec_of_int m) na in
         if dec_okb s then Some s else None)))
    (ci_others i)
    (let s := 0 + dec_of_int (ci_conv i) in if dec_okb s then Some s else None).

Definition commitment_fee_chk (i : cfee_in) : option Z :=
  obind (conv_dec_chk i) (fun d =>
  obind (chk (dec_truncate_int d)) (fun t =>
  obind (chk (if dec_is_integer d then t else t + 1)) (fun ca =>
  obind (chk (ca * ci_tfp i)) (fun m =>
  obind (chk (quo_round_up m (ci_tfa i))) (fun asfee =>
  obind (chk (ci_fee i + asfee)) (fun tot =>
  obind (chk (tot * ci_bips i)) (fun m2 =>
  chk (quo_round_up m2 twenty_k)))))))).

(** ** MsgFeesDistribution.Increase (x/msgfees/types/fee.go), one denom.
    [d_total] = TotalAdditionalFees, [d_module] = AdditionalModuleFees, [d_recips] = the
    RecipientDistributions map as an association list (recipient id, amount).  A non-positive coin
    is ignored; without a recipient everything goes to the module; otherwise the coin is split by
    bips (an error for bips > 10000 leaves the total already increased, as the Go code does). *)
Record dist := { d_total : Z; d_module : Z; d_recips : list (N * Z) }.

Fixpoint recip_add (l : list (N * Z)) (r : N) (a : Z) : list (N * Z) :=
  match l with
  | [] => [(r, a)]
  | (r', v) :: t => if N.eqb r r' then (r', v + a) :: t else (r', v) :: recip_add t r a
  end.

Definition recips_sum (l : list (N * Z)) : Z := fold_right (fun p acc => snd p + acc) 0 l.

(** [recipient = None] is the empty recipient string. Returns (new state, ok?). *)
Definition dist_increase (d : dist) (amt bips : Z) (recipient : option N) : dist * bool :=
  if amt <=? 0 then (d, true)
  else
    let d1 := {| d_total := d_total d + amt; d_module := d_module d; d_recips := d_recips d |} in
    match recipient with
    | None => ({| d_total := d_total d1; d_module := d_module d1 + amt; d_recips := d_recips d1 |}, true)
    | Some r =>
        match split_by_bips amt bips with
        | None => (d1, false)
        | Some (rc, rest) =>
            ({| d_total := d_total d1;
                d_module := if rest =? 0 then d_module d1 else d_module d1 + rest;
                d_recips := recip_add (d_recips d1) r rc |}, true)
        end
    end.

Definition dist_run (d : dist) (ops : list (Z * Z * option N)) : dist :=
  fold_left (fun st o => let '(amt, bips, r) := o in fst (dist_increase st amt bips r)) ops d.

Definition dist_empty : dist := {| d_total := 0; d_module := 0; d_recips := [] |}.
