(** Model of the fee checks and of the admission decision of the exchange module (property C20).

    Go sources transcribed here (function by function, branch for branch):
      x/exchange/keeper/market.go
          hasFlatFee / getFlatFee / validateFlatFee (and the four validateCreate*FlatFee /
          validateSellerSettlementFlatFee instances), hasFeeRatio / getFeeRatio,
          getSellerSettlementRatio, validateAskPrice, validateBuyerSettlementFee (the loop over the
          offered fee coins with flatFeeOk / ratioFeeOk), CreateMarket (normalisation of the three
          required-attribute lists), CanCreateAsk / CanCreateBid / CanCreateCommitment
      x/exchange/keeper/orders.go
          validateMarketIsAcceptingOrders, validateUserCanCreateAsk/Bid, validateCreateAskFees,
          validateCreateBidFees, the validation prefix of CreateAskOrder / CreateBidOrder
      x/exchange/keeper/commitments.go
          validateMarketIsAcceptingCommitments, validateUserCanCreateCommitment,
          ValidateAndCollectCommitmentCreationFee + AddCommitment as sequenced by MsgServer.CommitFunds
      x/exchange/keeper/fulfillment.go
          validateAcceptingOrdersAndCanUserSettle, the validation prefix of FillBids / FillAsks,
          and the seller ratio lookup of calculateSellerSettlementRatioFee
      x/exchange/market.go   Market.Validate: only the required-attribute rule (ValidateReqAttrs)
      x/exchange/keeper/market.go  UpdateMarketAcceptingOrders / UpdateUserSettlementAllowed /
          UpdateMarketAcceptingCommitments (effect on the three flags only)
      x/exchange/keeper/market.go  storeMarket (every setter: setAll*FlatFees / setAll*Ratios delete the
          old entries first; setMarketAcceptingOrders / setUserSettlementAllowed /
          setMarketAcceptingCommitments / setCommitmentSettlementBips / setIntermediaryDenom / setReqAttrs
          write or delete the entry), the entries that configuration endpoints leave under a market
          id that does not exist yet (MsgMarketUpdateAcceptingOrders / UpdateUserSettle /
          UpdateAcceptingCommitments / UpdateIntermediaryDenom / ManageReqAttrs sent by the authority,
          MsgGovCloseMarket, MsgGovManageFees: none of them checks that the market exists)
      cosmos-sdk types/coin.go  Coin.Validate / Coins.Validate (amount and order rules; denoms
          are assumed syntactically valid)
      x/exchange/msgs.go, orders.go  the fee / price rules of MsgCreateAsk/CreateBid/CommitFunds/
          FillBids/FillAsks ValidateBasic (AskOrder.Validate, BidOrder.Validate, validateCoin)
      x/exchange/msgs.go  MsgGovManageFeesRequest.ValidateBasic (+ ValidateAddRemoveFeeOptions,
          ValidateFeeOptions, ValidateSellerFeeRatios, ValidateBuyerFeeRatios,
          ValidateDisjointFeeRatios, ValidateBips, FeeRatio.Validate of x/exchange/market.go),
          MsgMarketManageReqAttrsRequest.ValidateBasic (+ ValidateAddRemoveReqAttrs)
      x/exchange/keeper/market.go  UpdateFees (updateFlatFees / updateFeeRatios /
          updateCommitmentSettlementBips on the keyed store), UpdateReqAttrs (normalisation, error
          accumulation; a message with any error changes nothing: the handler's error rolls the
          store back), MsgServer.GovManageFees (no market-existence check), MsgServer.MarketManageReqAttrs
      x/exchange/keeper/grpc_query.go  OrderFeeCalc (+ calculateSellerSettlementRatioFee,
          getBuyerSettlementFeeRatiosForPriceDenom, calcBuyerSettlementRatioFeeOptions),
          CommitmentSettlementFeeCalc / Keeper.CalculateCommitmentSettlementFee (control flow; the
          arithmetic is [commitment_fee] of Exchange/Arith.v), MsgServer.MarketCommitmentSettle
          (the fee step after SettleCommitments)

    A market's fee options live in the store keyed by denom (flat) or by price denom + fee denom
    (ratios): they are modelled as association lists looked up by key.  Assumed (enforced by
    Market.Validate, which MsgGovCreateMarket's ValidateBasic runs): one flat option per denom and
    kind, one ratio per denom pair, positive option amounts, positive ratio price amounts.
    Amounts are unbounded [Z]; the 256-bit overflow panics of sdkmath.Int are outside this model
    (C19 states the product bounds).  Everything after the validations (fee collection, holds,
    transfers) needs funds and is outside the model: the admission functions answer "does the
    request pass every check made before coins move".  No proofs in this file. *)
From Coq Require Import ZArith List Bool String Ascii.
From PV Require Import Exchange.Arith Exchange.ReqAttr.
Import ListNotations.
Open Scope Z_scope.

Definition coin := (string * Z)%type.
Definition denom_of (c : coin) : string := fst c.
Definition amt_of (c : coin) : Z := snd c.

Record ratio := { r_pd : string; r_pa : Z; r_fd : string; r_fa : Z }.

(** getFlatFee: the entry stored under the denom. *)
Fixpoint get_flat (opts : list coin) (d : string) : option Z :=
  match opts with
  | [] => None
  | (d', a) :: r => if String.eqb d' d then Some a else get_flat r d
  end.

(** getFeeRatio: the entry stored under (price denom, fee denom). *)
Fixpoint get_ratio (rs : list ratio) (pd fd : string) : option ratio :=
  match rs with
  | [] => None
  | r :: rest => if String.eqb (r_pd r) pd && String.eqb (r_fd r) fd then Some r else get_ratio rest pd fd
  end.

Definition nonempty {A} (l : list A) : bool := match l with [] => false | _ => true end.

(** validateFlatFee *)
Definition validate_flat_fee (opts : list coin) (fee : option coin) : bool :=
  if negb (nonempty opts) then true
  else match fee with
       | None => false
       | Some (d, a) =>
           match get_flat opts d with
           | None => false
           | Some req => negb (a <? req)
           end
       end.

(** getSellerSettlementRatio: [None] = error (ratios exist, none for this denom);
    [Some None] = no ratio applies; [Some (Some r)] = the ratio. *)
Definition seller_ratio (rs : list ratio) (pd : string) : option (option ratio) :=
  match get_ratio rs pd pd with
  | Some r => Some (Some r)
  | None => if nonempty rs then None else Some None
  end.

(** validateAskPrice *)
Definition validate_ask_price (rs : list ratio) (price : coin) (flat : option coin) : bool :=
  let '(pd, pa) := price in
  match seller_ratio rs pd with
  | None => false
  | Some ro =>
      let check_flat :=
        match flat with
        | Some (fd, fa) => negb (fa =? 0) && String.eqb pd fd
        | None => false
        end in
      let flat_amt := match flat with Some (_, fa) => fa | None => 0 end in
      match ro with
      | None => if check_flat && (pa <=? flat_amt) then false else true
      | Some r =>
          match apply_to_loosely (r_pa r) (r_fa r) pa with
          | None => false
          | Some rfee =>
              if negb check_flat then negb (pa <=? rfee)
              else negb (pa <=? flat_amt + rfee)
          end
      end
  end.

(** validateBuyerSettlementFee.  One iteration of the loop body is [buyer_step]: [BDone] is an
    early [return nil]; [BCont flat_ok' ratio_ok'] carries the flags to the next fee coin. *)
Inductive part_res := PDone | PAmt (a : option Z).
Inductive step_res := BDone | BCont (flat_ok ratio_ok : bool).

Definition flat_part (flats : list coin) (flat_req ratio_req ratio_ok : bool) (c : coin) : part_res :=
  if flat_req then
    match get_flat flats (denom_of c) with
    | None => PAmt None
    | Some f =>
        if amt_of c <? f then PAmt None
        else if negb ratio_req then PDone
        else if ratio_ok then PDone
        else PAmt (Some f)
    end
  else PAmt None.

Definition ratio_part (rs : list ratio) (flat_req ratio_req flat_ok : bool) (price : coin) (c : coin) : part_res :=
  if ratio_req then
    match get_ratio rs (denom_of price) (denom_of c) with
    | None => PAmt None
    | Some r =>
        match apply_to_loosely (r_pa r) (r_fa r) (amt_of price) with
        | None => PAmt None
        | Some rfee =>
            if amt_of c <? rfee then PAmt None
            else if negb flat_req then PDone
            else if flat_ok then PDone
            else PAmt (Some rfee)
        end
    end
  else PAmt None.

Definition is_some {A} (o : option A) : bool := match o with Some _ => true | None => false end.

Definition buyer_step (flats : list coin) (rs : list ratio) (price : coin)
           (flat_ok ratio_ok : bool) (c : coin) : step_res :=
  let flat_req := nonempty flats in
  let ratio_req := nonempty rs in
  match flat_part flats flat_req ratio_req ratio_ok c with
  | PDone => BDone
  | PAmt fo =>
      match ratio_part rs flat_req ratio_req flat_ok price c with
      | PDone => BDone
      | PAmt ro =>
          match fo, ro with
          | Some f, Some rf =>
              if amt_of c <? f + rf then BCont true true else BDone
          | _, _ => BCont (flat_ok || is_some fo) (ratio_ok || is_some ro)
          end
      end
  end.

Fixpoint buyer_loop (flats : list coin) (rs : list ratio) (price : coin)
         (fee : list coin) (flat_ok ratio_ok : bool) : bool :=
  match fee with
  | [] => false
  | c :: rest =>
      match buyer_step flats rs price flat_ok ratio_ok c with
      | BDone => true
      | BCont fo ro => buyer_loop flats rs price rest fo ro
      end
  end.

Definition validate_buyer_settlement_fee (flats : list coin) (rs : list ratio)
           (price : coin) (fee : list coin) : bool :=
  if negb (nonempty flats) && negb (nonempty rs) then true
  else buyer_loop flats rs price fee false false.

(** ** Markets *)
Record market := {
  m_create_ask : list coin;
  m_create_bid : list coin;
  m_create_com : list coin;
  m_seller_flat : list coin;
  m_seller_ratios : list ratio;
  m_buyer_flat : list coin;
  m_buyer_ratios : list ratio;
  m_accepting_orders : bool;
  m_user_settle : bool;
  m_accepting_commitments : bool;
  m_req_ask : list string;
  m_req_bid : list string;
  m_req_com : list string;
  m_bips : Z;                      (* commitment settlement bips, 0 = none *)
  m_interm : string                (* intermediary denom, "" = none *)
}.

(** The store does not keep the text of the required attributes as given: [clear_reqs] is the part
    of a configuration that is stored verbatim. *)
Definition clear_reqs (m : market) : market :=
  {| m_create_ask := m_create_ask m; m_create_bid := m_create_bid m; m_create_com := m_create_com m;
     m_seller_flat := m_seller_flat m; m_seller_ratios := m_seller_ratios m;
     m_buyer_flat := m_buyer_flat m; m_buyer_ratios := m_buyer_ratios m;
     m_accepting_orders := m_accepting_orders m; m_user_settle := m_user_settle m;
     m_accepting_commitments := m_accepting_commitments m;
     m_req_ask := []; m_req_bid := []; m_req_com := [];
     m_bips := m_bips m; m_interm := m_interm m |}.

(** What the store holds of a market after MsgGovCreateMarket: the fee tables, flags, bips and
    intermediary denom as given, the three required-attribute lists normalised. *)
Record stored := {
  s_mkt : market;                 (* fee tables, flags, bips, intermediary denom; no attribute text *)
  s_req_ask : list bytes;
  s_req_bid : list bytes;
  s_req_com : list bytes
}.

(** MsgGovCreateMarketRequest.ValidateBasic (required-attribute part) followed by
    Keeper.CreateMarket: [None] = rejected. *)
Definition create_market (m : market) : option stored :=
  let ra := map bytes_of (m_req_ask m) in
  let rb := map bytes_of (m_req_bid m) in
  let rc := map bytes_of (m_req_com m) in
  if validate_req_attrs ra && validate_req_attrs rb && validate_req_attrs rc then
    let '(na, oka) := normalize_req_attrs ra in
    let '(nb, okb) := normalize_req_attrs rb in
    let '(nc, okc) := normalize_req_attrs rc in
    if oka && okb && okc then
      Some {| s_mkt := clear_reqs m; s_req_ask := na; s_req_bid := nb; s_req_com := nc |}
    else None
  else None.

(** Keeper.UpdateMarketAcceptingOrders / UpdateUserSettlementAllowed /
    UpdateMarketAcceptingCommitments: the three flags are replaced, nothing else changes. *)
Definition set_flags (m : market) (ao us ac : bool) : market :=
  {| m_create_ask := m_create_ask m; m_create_bid := m_create_bid m; m_create_com := m_create_com m;
     m_seller_flat := m_seller_flat m; m_seller_ratios := m_seller_ratios m;
     m_buyer_flat := m_buyer_flat m; m_buyer_ratios := m_buyer_ratios m;
     m_accepting_orders := ao; m_user_settle := us; m_accepting_commitments := ac;
     m_req_ask := m_req_ask m; m_req_bid := m_req_bid m; m_req_com := m_req_com m;
     m_bips := m_bips m; m_interm := m_interm m |}.
Definition set_flags_stored (s : stored) (ao us ac : bool) : stored :=
  {| s_mkt := set_flags (s_mkt s) ao us ac;
     s_req_ask := s_req_ask s; s_req_bid := s_req_bid s; s_req_com := s_req_com s |}.

(** ** sdk.Coin / sdk.Coins validity (amount and order rules) *)
Definition coin_nonneg (c : coin) : bool := 0 <=? amt_of c.     (* Coin.Validate *)
Definition coin_pos (c : coin) : bool := 0 <? amt_of c.          (* Coin.Validate and not IsZero *)

(** Coins.Validate: every amount positive, denoms strictly ascending (byte order). *)
Fixpoint coins_ascending (low : string) (l : list coin) : bool :=
  match l with
  | [] => true
  | c :: r => String.ltb low (denom_of c) && coin_pos c && coins_ascending (denom_of c) r
  end.
Definition coins_valid (l : list coin) : bool :=
  match l with
  | [] => true
  | c :: r => coin_pos c && coins_ascending (denom_of c) r
  end.

Definition opt_ok (f : coin -> bool) (o : option coin) : bool :=
  match o with None => true | Some c => f c end.

(** ** Requests *)
(** The two fill requests carry [orders_ok]: whether the order ids of the request name existing
    orders of the other kind in this market that belong to someone else and add up to the stated
    total (getBidOrders / getAskOrders and the total comparison); [prices] of [AFillBids] is the
    sum of the bid prices, one coin per denom. *)
Inductive action :=
| ACreateAsk (price : coin) (settle_flat : option coin) (creation_fee : option coin)
| ACreateBid (price : coin) (settle_fees : list coin) (creation_fee : option coin)
| ACommit (creation_fee : option coin)
| AFillBids (orders_ok : bool) (prices : list coin) (settle_flat : option coin) (creation_fee : option coin)
| AFillAsks (orders_ok : bool) (total_price : coin) (settle_fees : list coin) (creation_fee : option coin).

(** The fee / price part of the five ValidateBasic methods. *)
Definition msg_basic (a : action) : bool :=
  match a with
  | ACreateAsk price sflat cfee => coin_pos price && opt_ok coin_pos sflat && opt_ok coin_nonneg cfee
  | ACreateBid price sfees cfee => coin_pos price && coins_valid sfees && opt_ok coin_nonneg cfee
  | ACommit cfee => opt_ok coin_nonneg cfee
  | AFillBids _ _ sflat cfee => opt_ok coin_pos sflat && opt_ok coin_pos cfee
  | AFillAsks _ tprice sfees cfee => coin_pos tprice && coins_valid sfees && opt_ok coin_pos cfee
  end.

(** The admission decision after ValidateBasic: [mk] is the stored market ([None]: the market id
    is unknown), [accs] the names of the attributes on the requesting account.  The order of the
    conjuncts is the order of the checks in the Go code (irrelevant for the boolean, kept for
    readability). *)
Definition admits (mk : option stored) (accs : list bytes) (a : action) : bool :=
  match mk with
  | None => false
  | Some s =>
      let m := s_mkt s in
      match a with
      | ACreateAsk price sflat cfee =>
          m_accepting_orders m
          && acct_has_req_attrs (s_req_ask s) accs
          && validate_flat_fee (m_create_ask m) cfee
          && validate_flat_fee (m_seller_flat m) sflat
          && validate_ask_price (m_seller_ratios m) price sflat
      | ACreateBid price sfees cfee =>
          m_accepting_orders m
          && acct_has_req_attrs (s_req_bid s) accs
          && validate_flat_fee (m_create_bid m) cfee
          && validate_buyer_settlement_fee (m_buyer_flat m) (m_buyer_ratios m) price sfees
      | ACommit cfee =>
          validate_flat_fee (m_create_com m) cfee
          && m_accepting_commitments m
          && acct_has_req_attrs (s_req_com s) accs
      | AFillBids ok prices sflat cfee =>
          m_accepting_orders m && m_user_settle m
          && acct_has_req_attrs (s_req_ask s) accs
          && validate_flat_fee (m_create_ask m) cfee
          && validate_flat_fee (m_seller_flat m) sflat
          && ok
          && forallb (fun p => is_some (seller_ratio (m_seller_ratios m) (denom_of p))) prices
      | AFillAsks ok tprice sfees cfee =>
          m_accepting_orders m && m_user_settle m
          && acct_has_req_attrs (s_req_bid s) accs
          && validate_flat_fee (m_create_bid m) cfee
          && validate_buyer_settlement_fee (m_buyer_flat m) (m_buyer_ratios m) tprice sfees
          && ok
          && is_some (seller_ratio (m_seller_ratios m) (denom_of tprice))
      end
  end.

(** The message handlers: ValidateBasic, then the checks above. *)
Definition admits_msg (mk : option stored) (accs : list bytes) (a : action) : bool :=
  msg_basic a && admits mk accs a.

(** The exported Validate* / CanCreate* keeper methods on a market id that may be unknown: an
    unknown id has empty tables, so every such check passes. *)
Definition empty_market : market :=
  {| m_create_ask := []; m_create_bid := []; m_create_com := []; m_seller_flat := [];
     m_seller_ratios := []; m_buyer_flat := []; m_buyer_ratios := [];
     m_accepting_orders := false; m_user_settle := false; m_accepting_commitments := false;
     m_req_ask := []; m_req_bid := []; m_req_com := []; m_bips := 0; m_interm := "" |}.
Definition empty_stored : stored :=
  {| s_mkt := empty_market; s_req_ask := []; s_req_bid := []; s_req_com := [] |}.
Definition tables (mk : option stored) : stored :=
  match mk with Some s => s | None => empty_stored end.

(** ** MsgGovManageFees *)
Record fee_msg := {
  fm_add_create_ask : list coin;    fm_rem_create_ask : list coin;
  fm_add_create_bid : list coin;    fm_rem_create_bid : list coin;
  fm_add_create_com : list coin;    fm_rem_create_com : list coin;
  fm_add_seller_flat : list coin;   fm_rem_seller_flat : list coin;
  fm_add_seller_ratios : list ratio; fm_rem_seller_ratios : list ratio;
  fm_add_buyer_flat : list coin;    fm_rem_buyer_flat : list coin;
  fm_add_buyer_ratios : list ratio; fm_rem_buyer_ratios : list ratio;
  fm_set_bips : Z;                  fm_unset_bips : bool
}.

Fixpoint mem_str (x : string) (l : list string) : bool :=
  match l with [] => false | y :: r => String.eqb x y || mem_str x r end.
Fixpoint nodup_str (l : list string) : bool :=
  match l with [] => true | x :: r => negb (mem_str x r) && nodup_str r end.

Definition coin_eqb (a b : coin) : bool := String.eqb (fst a) (fst b) && (snd a =? snd b).
Definition ratio_eqb (a b : ratio) : bool :=      (* FeeRatio.Equals *)
  String.eqb (r_pd a) (r_pd b) && (r_pa a =? r_pa b) && String.eqb (r_fd a) (r_fd b) && (r_fa a =? r_fa b).
Definition disjoint_by {A} (eqb : A -> A -> bool) (l1 l2 : list A) : bool :=
  forallb (fun a => negb (existsb (eqb a) l2)) l1.

(** ValidateFeeOptions: one entry per denom, every amount positive. *)
Definition validate_fee_options (l : list coin) : bool :=
  nodup_str (map denom_of l) && forallb coin_pos l.
(** ValidateAddRemoveFeeOptions: the additions are valid options and no coin (denom and amount)
    is both added and removed. *)
Definition validate_add_remove_flats (add rem : list coin) : bool :=
  validate_fee_options add && disjoint_by coin_eqb add rem.
(** FeeRatio.Validate *)
Definition ratio_valid (r : ratio) : bool :=
  (0 <? r_pa r) && (0 <=? r_fa r) && (negb (String.eqb (r_pd r) (r_fd r)) || (r_fa r <=? r_pa r)).
(** ValidateSellerFeeRatios: one ratio per price denom, fee denom = price denom, each valid. *)
Definition validate_seller_ratios (l : list ratio) : bool :=
  nodup_str (map r_pd l) && forallb (fun r => String.eqb (r_pd r) (r_fd r) && ratio_valid r) l.
(** ValidateBuyerFeeRatios: one ratio per "price:fee" key, each valid. *)
Definition buyer_key (r : ratio) : string := (r_pd r ++ ":" ++ r_fd r)%string.
Definition validate_buyer_ratios (l : list ratio) : bool :=
  nodup_str (map buyer_key l) && forallb ratio_valid l.

Definition max_bips : Z := 10000.

Definition fee_msg_has_updates (f : fee_msg) : bool :=
  nonempty (fm_add_create_ask f) || nonempty (fm_rem_create_ask f) ||
  nonempty (fm_add_create_bid f) || nonempty (fm_rem_create_bid f) ||
  nonempty (fm_add_seller_flat f) || nonempty (fm_rem_seller_flat f) ||
  nonempty (fm_add_seller_ratios f) || nonempty (fm_rem_seller_ratios f) ||
  nonempty (fm_add_buyer_flat f) || nonempty (fm_rem_buyer_flat f) ||
  nonempty (fm_add_buyer_ratios f) || nonempty (fm_rem_buyer_ratios f) ||
  nonempty (fm_add_create_com f) || nonempty (fm_rem_create_com f) ||
  negb (fm_set_bips f =? 0) || fm_unset_bips f.

(** MsgGovManageFeesRequest.ValidateBasic (authority and market id are given correctly). *)
Definition fee_msg_valid (f : fee_msg) : bool :=
  fee_msg_has_updates f &&
  validate_add_remove_flats (fm_add_create_ask f) (fm_rem_create_ask f) &&
  validate_add_remove_flats (fm_add_create_bid f) (fm_rem_create_bid f) &&
  validate_add_remove_flats (fm_add_create_com f) (fm_rem_create_com f) &&
  validate_add_remove_flats (fm_add_seller_flat f) (fm_rem_seller_flat f) &&
  validate_seller_ratios (fm_add_seller_ratios f) &&
  disjoint_by ratio_eqb (fm_add_seller_ratios f) (fm_rem_seller_ratios f) &&
  validate_add_remove_flats (fm_add_buyer_flat f) (fm_rem_buyer_flat f) &&
  validate_buyer_ratios (fm_add_buyer_ratios f) &&
  disjoint_by ratio_eqb (fm_add_buyer_ratios f) (fm_rem_buyer_ratios f) &&
  (0 <=? fm_set_bips f) && (fm_set_bips f <=? max_bips) &&
  negb (fm_unset_bips f && (0 <? fm_set_bips f)).

(** The keyed store behind a flat-fee table: deleting removes the entry of the denom (whatever its
    amount), writing replaces the entry of the denom.  updateFlatFees deletes all, then writes all. *)
Definition del_flat (d : string) (l : list coin) : list coin :=
  filter (fun c => negb (String.eqb (denom_of c) d)) l.
Definition set_flat (c : coin) (l : list coin) : list coin := del_flat (denom_of c) l ++ [c].
Definition update_flats (cur rem add : list coin) : list coin :=
  fold_left (fun l c => set_flat c l) add (fold_left (fun l c => del_flat (denom_of c) l) rem cur).

(** The same for ratios, keyed by (price denom, fee denom). *)
Definition same_denoms (a b : ratio) : bool :=
  String.eqb (r_pd a) (r_pd b) && String.eqb (r_fd a) (r_fd b).
Definition del_ratio (k : ratio) (l : list ratio) : list ratio :=
  filter (fun r => negb (same_denoms r k)) l.
Definition set_ratio (r : ratio) (l : list ratio) : list ratio := del_ratio r l ++ [r].
Definition update_ratios (cur rem add : list ratio) : list ratio :=
  fold_left (fun l r => set_ratio r l) add (fold_left (fun l r => del_ratio r l) rem cur).

(** updateCommitmentSettlementBips *)
Definition update_bips (cur set : Z) (unset : bool) : Z :=
  let b := if unset then 0 else cur in
  if 0 <? set then set else b.

(** ValidateBasic, then Keeper.UpdateFees.  A message that fails ValidateBasic changes nothing. *)
Definition manage_fees (m : market) (f : fee_msg) : market :=
  if fee_msg_valid f then
    {| m_create_ask := update_flats (m_create_ask m) (fm_rem_create_ask f) (fm_add_create_ask f);
       m_create_bid := update_flats (m_create_bid m) (fm_rem_create_bid f) (fm_add_create_bid f);
       m_create_com := update_flats (m_create_com m) (fm_rem_create_com f) (fm_add_create_com f);
       m_seller_flat := update_flats (m_seller_flat m) (fm_rem_seller_flat f) (fm_add_seller_flat f);
       m_seller_ratios := update_ratios (m_seller_ratios m) (fm_rem_seller_ratios f) (fm_add_seller_ratios f);
       m_buyer_flat := update_flats (m_buyer_flat m) (fm_rem_buyer_flat f) (fm_add_buyer_flat f);
       m_buyer_ratios := update_ratios (m_buyer_ratios m) (fm_rem_buyer_ratios f) (fm_add_buyer_ratios f);
       m_accepting_orders := m_accepting_orders m; m_user_settle := m_user_settle m;
       m_accepting_commitments := m_accepting_commitments m;
       m_req_ask := m_req_ask m; m_req_bid := m_req_bid m; m_req_com := m_req_com m;
       m_bips := update_bips (m_bips m) (fm_set_bips f) (fm_unset_bips f);
       m_interm := m_interm m |}
  else m.
Definition manage_fees_stored (s : stored) (f : fee_msg) : stored :=
  {| s_mkt := manage_fees (s_mkt s) f;
     s_req_ask := s_req_ask s; s_req_bid := s_req_bid s; s_req_com := s_req_com s |}.

(** ** MsgMarketManageReqAttrs *)
Record attr_msg := {
  am_auth : bool;                        (* the admin holds PERMISSION_ATTRIBUTES in the market *)
  am_ask_add : list string; am_ask_rem : list string;
  am_bid_add : list string; am_bid_rem : list string;
  am_com_add : list string; am_com_rem : list string
}.

Definition attr_msg_has_updates (a : attr_msg) : bool :=
  nonempty (am_ask_add a) || nonempty (am_ask_rem a) || nonempty (am_bid_add a) ||
  nonempty (am_bid_rem a) || nonempty (am_com_add a) || nonempty (am_com_rem a).

(** MsgMarketManageReqAttrsRequest.ValidateBasic *)
Definition attr_msg_valid (a : attr_msg) : bool :=
  attr_msg_has_updates a &&
  validate_add_remove_req_attrs (map bytes_of (am_ask_add a)) (map bytes_of (am_ask_rem a)) &&
  validate_add_remove_req_attrs (map bytes_of (am_bid_add a)) (map bytes_of (am_bid_rem a)) &&
  validate_add_remove_req_attrs (map bytes_of (am_com_add a)) (map bytes_of (am_com_rem a)).

(** ValidateBasic, MsgServer.MarketManageReqAttrs (permission), Keeper.UpdateReqAttrs: [None] =
    rejected (nothing changes). *)
Definition manage_req_attrs (s : stored) (a : attr_msg) : option stored :=
  if attr_msg_valid a && am_auth a then
    let '(ask_rem, _) := normalize_req_attrs (map bytes_of (am_ask_rem a)) in
    let '(ask_add, ok1) := normalize_req_attrs (map bytes_of (am_ask_add a)) in
    let '(bid_rem, _) := normalize_req_attrs (map bytes_of (am_bid_rem a)) in
    let '(bid_add, ok2) := normalize_req_attrs (map bytes_of (am_bid_add a)) in
    let '(com_rem, _) := normalize_req_attrs (map bytes_of (am_com_rem a)) in
    let '(com_add, ok3) := normalize_req_attrs (map bytes_of (am_com_add a)) in
    if ok1 && ok2 && ok3 then
      match update_req_attrs (s_req_ask s) ask_rem ask_add,
            update_req_attrs (s_req_bid s) bid_rem bid_add,
            update_req_attrs (s_req_com s) com_rem com_add with
      | Some ra, Some rb, Some rc =>
          Some {| s_mkt := s_mkt s; s_req_ask := ra; s_req_bid := rb; s_req_com := rc |}
      | _, _, _ => None
      end
    else None
  else None.

(** ** Configuration changes as operations on the stored market *)
Inductive cfg_op :=
| UFlags (ao us ac : bool)
| UFees (f : fee_msg)
| UAttrs (a : attr_msg).

Definition step_stored (s : stored) (o : cfg_op) : stored :=
  match o with
  | UFlags ao us ac => set_flags_stored s ao us ac
  | UFees f => manage_fees_stored s f
  | UAttrs a => match manage_req_attrs s a with Some s' => s' | None => s end
  end.

(** ** Entries left under a market id before the market exists, and storeMarket over them *)

(** The exchange store under an id nothing has touched: no table entry, no flag entry (a market
    "accepts orders" unless the not-accepting-orders entry exists), no list, no bips. *)
Definition blank_market : market :=
  {| m_create_ask := []; m_create_bid := []; m_create_com := []; m_seller_flat := [];
     m_seller_ratios := []; m_buyer_flat := []; m_buyer_ratios := [];
     m_accepting_orders := true; m_user_settle := false; m_accepting_commitments := false;
     m_req_ask := []; m_req_bid := []; m_req_com := []; m_bips := 0; m_interm := "" |}.
Definition blank_stored : stored :=
  {| s_mkt := blank_market; s_req_ask := []; s_req_bid := []; s_req_com := [] |}.

Definition set_interm (m : market) (d : string) : market :=
  {| m_create_ask := m_create_ask m; m_create_bid := m_create_bid m; m_create_com := m_create_com m;
     m_seller_flat := m_seller_flat m; m_seller_ratios := m_seller_ratios m;
     m_buyer_flat := m_buyer_flat m; m_buyer_ratios := m_buyer_ratios m;
     m_accepting_orders := m_accepting_orders m; m_user_settle := m_user_settle m;
     m_accepting_commitments := m_accepting_commitments m;
     m_req_ask := m_req_ask m; m_req_bid := m_req_bid m; m_req_com := m_req_com m;
     m_bips := m_bips m; m_interm := d |}.

(** Configuration messages sent by the governance authority (which passes every permission check)
    for an id that is not a market: the three Update* endpoints refuse only "already that value";
    MsgGovCloseMarket always succeeds and leaves not-accepting-orders set, accepting-commitments
    unset; fees and required attributes as for an existing market. *)
Inductive pre_op :=
| PreOrders (v : bool)
| PreUserSettle (v : bool)
| PreCommitments (v : bool)
| PreClose
| PreInterm (d : string)
| PreFees (f : fee_msg)
| PreAttrs (a : attr_msg).

Definition pre_step (s : stored) (o : pre_op) : stored * bool :=
  let m := s_mkt s in
  let ao := m_accepting_orders m in
  let us := m_user_settle m in
  let ac := m_accepting_commitments m in
  match o with
  | PreOrders v => if Bool.eqb ao v then (s, false) else (set_flags_stored s v us ac, true)
  | PreUserSettle v => if Bool.eqb us v then (s, false) else (set_flags_stored s ao v ac, true)
  | PreCommitments v => if Bool.eqb ac v then (s, false) else (set_flags_stored s ao us v, true)
  | PreClose => (set_flags_stored s false us false, true)
  | PreInterm d => ({| s_mkt := set_interm m d; s_req_ask := s_req_ask s; s_req_bid := s_req_bid s;
                       s_req_com := s_req_com s |}, true)
  | PreFees f => (manage_fees_stored s f, fee_msg_valid f)
  | PreAttrs a => match manage_req_attrs s a with Some s' => (s', true) | None => (s, false) end
  end.

Definition run_pre (ops : list pre_op) : stored :=
  fold_left (fun s o => fst (pre_step s o)) ops blank_stored.

(** setAllFlatFees / setAllFeeRatios: deleteAll of the prefix (every old entry goes), then one write
    per given entry. *)
Definition set_all_flats (old new : list coin) : list coin :=
  fold_left (fun l c => set_flat c l) new (fold_left (fun l c => del_flat (denom_of c) l) old old).
Definition set_all_ratios (old new : list ratio) : list ratio :=
  fold_left (fun l r => set_ratio r l) new (fold_left (fun l r => del_ratio r l) old old).

(** The indicator entries.  [entry] = the key is in the store.  setMarketAcceptingOrders deletes
    the not-accepting-orders key when accepting and writes it otherwise; the other two setters write
    their key when the flag is on and delete it otherwise - whatever was there. *)
Definition write_not_accepting_orders (entry accepting : bool) : bool := if accepting then false else true.
Definition write_indicator (entry on : bool) : bool := if on then true else false.
(** setCommitmentSettlementBips / setIntermediaryDenom / setReqAttrs: write the value, or delete the
    key when the value is zero / empty. *)
Definition write_bips (old new : Z) : Z := if new =? 0 then 0 else new.
Definition write_interm (old new : string) : string := if String.eqb new "" then ""%string else new.
Definition write_reqs (old new : list bytes) : list bytes := match new with [] => [] | _ => new end.

(** MsgGovCreateMarketRequest.ValidateBasic (required-attribute part), Keeper.CreateMarket and
    storeMarket writing over whatever [old] holds under the id: [None] = rejected. *)
Definition store_market (old : stored) (m : market) : option stored :=
  let ra := map bytes_of (m_req_ask m) in
  let rb := map bytes_of (m_req_bid m) in
  let rc := map bytes_of (m_req_com m) in
  if validate_req_attrs ra && validate_req_attrs rb && validate_req_attrs rc then
    let '(na, oka) := normalize_req_attrs ra in
    let '(nb, okb) := normalize_req_attrs rb in
    let '(nc, okc) := normalize_req_attrs rc in
    if oka && okb && okc then
      let o := s_mkt old in
      Some {| s_mkt :=
                {| m_create_ask := set_all_flats (m_create_ask o) (m_create_ask m);
                   m_create_bid := set_all_flats (m_create_bid o) (m_create_bid m);
                   m_create_com := set_all_flats (m_create_com o) (m_create_com m);
                   m_seller_flat := set_all_flats (m_seller_flat o) (m_seller_flat m);
                   m_seller_ratios := set_all_ratios (m_seller_ratios o) (m_seller_ratios m);
                   m_buyer_flat := set_all_flats (m_buyer_flat o) (m_buyer_flat m);
                   m_buyer_ratios := set_all_ratios (m_buyer_ratios o) (m_buyer_ratios m);
                   m_accepting_orders :=
                     negb (write_not_accepting_orders (negb (m_accepting_orders o)) (m_accepting_orders m));
                   m_user_settle := write_indicator (m_user_settle o) (m_user_settle m);
                   m_accepting_commitments := write_indicator (m_accepting_commitments o) (m_accepting_commitments m);
                   m_req_ask := []; m_req_bid := []; m_req_com := [];
                   m_bips := write_bips (m_bips o) (m_bips m);
                   m_interm := write_interm (m_interm o) (m_interm m) |};
              s_req_ask := write_reqs (s_req_ask old) na;
              s_req_bid := write_reqs (s_req_bid old) nb;
              s_req_com := write_reqs (s_req_com old) nc |}
    else None
  else None.

(** ** Fee quotes *)
(** QueryServer.OrderFeeCalc: (creation fee options, settlement flat fee options, settlement ratio
    fee options); [None] = the query fails. *)
Definition quote := (list coin * list coin * list coin)%type.

Definition quote_ask (mk : option stored) (price : coin) : option quote :=
  match mk with
  | None => None
  | Some s =>
      let m := s_mkt s in
      match seller_ratio (m_seller_ratios m) (denom_of price) with
      | None => None
      | Some None => Some (m_create_ask m, m_seller_flat m, [])
      | Some (Some r) =>
          match apply_to_loosely (r_pa r) (r_fa r) (amt_of price) with
          | None => None
          | Some x => Some (m_create_ask m, m_seller_flat m, [(r_fd r, x)])
          end
      end
  end.

(** calcBuyerSettlementRatioFeeOptions *)
Definition buyer_ratio_options (rs : list ratio) (price : coin) : option (list coin) :=
  let for_pd := filter (fun r => String.eqb (r_pd r) (denom_of price)) rs in
  match for_pd with
  | [] => if nonempty rs then None else Some []
  | _ =>
      let opts := flat_map (fun r => match apply_to_loosely (r_pa r) (r_fa r) (amt_of price) with
                                     | Some x => [(r_fd r, x)]
                                     | None => []
                                     end) for_pd in
      match opts with [] => None | _ => Some opts end
  end.

Definition quote_bid (mk : option stored) (price : coin) : option quote :=
  match mk with
  | None => None
  | Some s =>
      let m := s_mkt s in
      match buyer_ratio_options (m_buyer_ratios m) price with
      | None => None
      | Some opts => Some (m_create_bid m, m_buyer_flat m, opts)
      end
  end.

(** sdk.NewCoins of an optional flat and an optional ratio fee coin: zero coins dropped, one coin
    when the denoms coincide, ascending denoms otherwise. *)
Definition drop_zero (o : option coin) : option coin :=
  match o with Some c => if amt_of c =? 0 then None else Some c | None => None end.
Definition offer (f x : option coin) : list coin :=
  match drop_zero f, drop_zero x with
  | None, None => []
  | Some c, None | None, Some c => [c]
  | Some c1, Some c2 =>
      if String.eqb (denom_of c1) (denom_of c2) then [(denom_of c1, amt_of c1 + amt_of c2)]
      else if String.ltb (denom_of c1) (denom_of c2) then [c1; c2] else [c2; c1]
  end.

(** Keeper.CalculateCommitmentSettlementFee (CommitmentSettlementFeeCalc query, and the fee step of
    MsgMarketCommitmentSettle).  [fee_denom] is the chain's fee denom, [navs] the NAVs given in
    the request as (assets denom, price denom, assets amount, price amount) (no NAV is stored in
    the marker / metadata modules for these denoms), [total] the sum of the inputs, one coin per
    denom.  [None] = error; [Some None] = no fee (no bips, or no inputs); [Some (Some x)] = x of
    the fee denom. *)
Definition nav := (string * string * Z * Z)%type.
Fixpoint lookup_nav (navs : list nav) (ad pd : string) : option (Z * Z) :=
  match navs with
  | [] => None
  | (a, p, aa, pa) :: r => if String.eqb a ad && String.eqb p pd then Some (aa, pa) else lookup_nav r ad pd
  end.

Fixpoint other_inputs (navs : list nav) (conv fee_denom : string) (total : list coin)
  : option (list (Z * Z * Z)) :=
  match total with
  | [] => Some []
  | (d, a) :: r =>
      match other_inputs navs conv fee_denom r with
      | None => None
      | Some l =>
          if String.eqb d fee_denom || String.eqb d conv then Some l
          else match lookup_nav navs d conv with
               | None => None
               | Some (aa, pa) => Some ((a, pa, aa) :: l)
               end
      end
  end.

Definition amount_of (d : string) (l : list coin) : Z :=
  match get_flat l d with Some a => a | None => 0 end.

Definition commitment_quote (mk : option stored) (fee_denom : string) (navs : list nav)
           (total : list coin) : option (option Z) :=
  let m := s_mkt (tables mk) in
  if m_bips m =? 0 then Some None
  else if String.eqb (m_interm m) "" then None
  else
    let conv := m_interm m in
    match (if String.eqb conv fee_denom then Some (1, 1) else lookup_nav navs conv fee_denom) with
    | None => None
    | Some (tfa, tfp) =>
        match total with
        | [] => Some None
        | _ =>
            match other_inputs navs conv fee_denom total with
            | None => None
            | Some others =>
                (* ExchangeFees = sdk.NewCoins(fee coin): a fee of zero (every input converts to less
                   than 10^-18 of the intermediary denom and is truncated away, or the inputs are
                   worth nothing) leaves the coin set empty, like "no fee" *)
                let x := commitment_fee
                  {| ci_fee := amount_of fee_denom total;
                     ci_conv := if String.eqb conv fee_denom then 0 else amount_of conv total;
                     ci_others := others; ci_tfp := tfp; ci_tfa := tfa; ci_bips := m_bips m |} in
                Some (if x =? 0 then None else Some x)
            end
        end
    end.
