(** Model of the fee checks and of the admission decision of the exchange module (property C20).

    Go sources transcribed here (function by function, branch for branch):
      x/exchange/keeper/market.go
          hasFlatFee / getFlatFee / validateFlatFee (and the four validateCreate*FlatFee /
          validateSellerSettlementFlatFee instances), hasFeeRatio / getFeeRatio,
          getSellerSettlementRatio, validateAskPrice, validateBuyerSettlementFee (the loop over the
          offered fee coins with flatFeeOk / ratioFeeOk), CreateMarket (normalisation of the three
          required-attribute lists), CanCreateAsk / CanCreateBid / CanCreateCommitment
      x/exchange/keeper/orders.go
          validateMarketIsAcceptingOrders, validateUserCanCreateAsk/Bid, validateCreateAskFees,
          validateCreateBidFees, the validation prefix of CreateAskOrder / CreateBidOrder
      x/exchange/keeper/commitments.go
          validateMarketIsAcceptingCommitments, validateUserCanCreateCommitment,
          ValidateAndCollectCommitmentCreationFee + AddCommitment as sequenced by MsgServer.CommitFunds
      x/exchange/keeper/fulfillment.go
          validateAcceptingOrdersAndCanUserSettle, the validation prefix of FillBids / FillAsks,
          and the seller ratio lookup of calculateSellerSettlementRatioFee
      x/exchange/market.go   Market.Validate: only the required-attribute rule (ValidateReqAttrs)
      x/exchange/keeper/market.go  UpdateMarketAcceptingOrders / UpdateUserSettlementAllowed /
          UpdateMarketAcceptingCommitments (effect on the three flags only)

    A market's fee options live in the store keyed by denom (flat) or by price denom + fee denom
    (ratios): they are modelled as association lists looked up by key.  Assumed (enforced by
    Market.Validate, which MsgGovCreateMarket's ValidateBasic runs): one flat option per denom and
    kind, one ratio per denom pair, positive option amounts, positive ratio price amounts.
    Amounts are unbounded [Z]; the 256-bit overflow panics of sdkmath.Int are outside this model
    (C19 states the product bounds).  Everything after the validations (fee collection, holds,
    transfers) needs funds and is outside the model: the admission functions answer "does the
    request pass every check made before coins move".  No proofs in this file. *)
From Coq Require Import ZArith List Bool String Ascii.
From PV Require Import Exchange.Arith Exchange.ReqAttr.
Import ListNotations.
Open Scope Z_scope.

Definition coin := (string * Z)%type.
Definition denom_of (c : coin) : string := fst c.
Definition amt_of (c : coin) : Z := snd c.

Record ratio := { r_pd : string; r_pa : Z; r_fd : string; r_fa : Z }.

(** getFlatFee: the entry stored under the denom. *)
Fixpoint get_flat (opts : list coin) (d : string) : option Z :=
  match opts with
  | [] => None
  | (d', a) :: r => if String.eqb d' d then Some a else get_flat r d
  end.

(** getFeeRatio: the entry stored under (price denom, fee denom). *)
Fixpoint get_ratio (rs : list ratio) (pd fd : string) : option ratio :=
  match rs with
  | [] => None
  | r :: rest => if String.eqb (r_pd r) pd && String.eqb (r_fd r) fd then Some r else get_ratio rest pd fd
  end.

Definition nonempty {A} (l : list A) : bool := match l with [] => false | _ => true end.

(** validateFlatFee *)
Definition validate_flat_fee (opts : list coin) (fee : option coin) : bool :=
  if negb (nonempty opts) then true
  else match fee with
       | None => false
       | Some (d, a) =>
           match get_flat opts d with
           | None => false
           | Some req => negb (a <? req)
           end
       end.

(** getSellerSettlementRatio: [None] = error (ratios exist, none for this denom);
    [Some None] = no ratio applies; [Some (Some r)] = the ratio. *)
Definition seller_ratio (rs : list ratio) (pd : string) : option (option ratio) :=
  match get_ratio rs pd pd with
  | Some r => Some (Some r)
  | None => if nonempty rs then None else Some None
  end.

(** validateAskPrice *)
Definition validate_ask_price (rs : list ratio) (price : coin) (flat : option coin) : bool :=
  let '(pd, pa) := price in
  match seller_ratio rs pd with
  | None => false
  | Some ro =>
      let check_flat :=
        match flat with
        | Some (fd, fa) => negb (fa =? 0) && String.eqb pd fd
        | None => false
        end in
      let flat_amt := match flat with Some (_, fa) => fa | None => 0 end in
      match ro with
      | None => if check_flat && (pa <=? flat_amt) then false else true
      | Some r =>
          match apply_to_loosely (r_pa r) (r_fa r) pa with
          | None => false
          | Some rfee =>
              if negb check_flat then negb (pa <=? rfee)
              else negb (pa <=? flat_amt + rfee)
          end
      end
  end.

(** validateBuyerSettlementFee.  One iteration of the loop body is [buyer_step]: [BDone] is an
    early [return nil]; [BCont flat_ok' ratio_ok'] carries the flags to the next fee coin. *)
Inductive part_res := PDone | PAmt (a : option Z).
Inductive step_res := BDone | BCont (flat_ok ratio_ok : bool).

Definition flat_part (flats : list coin) (flat_req ratio_req ratio_ok : bool) (c : coin) : part_res :=
  if flat_req then
    match get_flat flats (denom_of c) with
    | None => PAmt None
    | Some f =>
        if amt_of c <? f then PAmt None
        else if negb ratio_req then PDone
        else if ratio_ok then PDone
        else PAmt (Some f)
    end
  else PAmt None.

Definition ratio_part (rs : list ratio) (flat_req ratio_req flat_ok : bool) (price : coin) (c : coin) : part_res :=
  if ratio_req then
    match get_ratio rs (denom_of price) (denom_of c) with
    | None => PAmt None
    | Some r =>
        match apply_to_loosely (r_pa r) (r_fa r) (amt_of price) with
        | None => PAmt None
        | Some rfee =>
            if amt_of c <? rfee then PAmt None
            else if negb flat_req then PDone
            else if flat_ok then PDone
            else PAmt (Some rfee)
        end
    end
  else PAmt None.

Definition is_some {A} (o : option A) : bool := match o with Some _ => true | None => false end.

Definition buyer_step (flats : list coin) (rs : list ratio) (price : coin)
           (flat_ok ratio_ok : bool) (c : coin) : step_res :=
  let flat_req := nonempty flats in
  let ratio_req := nonempty rs in
  match flat_part flats flat_req ratio_req ratio_ok c with
  | PDone => BDone
  | PAmt fo =>
      match ratio_part rs flat_req ratio_req flat_ok price c with
      | PDone => BDone
      | PAmt ro =>
          match fo, ro with
          | Some f, Some rf =>
              if amt_of c <? f + rf then BCont true true else BDone
          | _, _ => BCont (flat_ok || is_some fo) (ratio_ok || is_some ro)
          end
      end
  end.

Fixpoint buyer_loop (flats : list coin) (rs : list ratio) (price : coin)
         (fee : list coin) (flat_ok ratio_ok : bool) : bool :=
  match fee with
  | [] => false
  | c :: rest =>
      match buyer_step flats rs price flat_ok ratio_ok c with
      | BDone => true
      | BCont fo ro => buyer_loop flats rs price rest fo ro
      end
  end.

Definition validate_buyer_settlement_fee (flats : list coin) (rs : list ratio)
           (price : coin) (fee : list coin) : bool :=
  if negb (nonempty flats) && negb (nonempty rs) then true
  else buyer_loop flats rs price fee false false.

(** ** Markets *)
Record market := {
  m_create_ask : list coin;
  m_create_bid : list coin;
  m_create_com : list coin;
  m_seller_flat : list coin;
  m_seller_ratios : list ratio;
  m_buyer_flat : list coin;
  m_buyer_ratios : list ratio;
  m_accepting_orders : bool;
  m_user_settle : bool;
  m_accepting_commitments : bool;
  m_req_ask : list string;
  m_req_bid : list string;
  m_req_com : list string
}.

(** What the store holds of a market after MsgGovCreateMarket: the fee tables and flags as given,
    the three required-attribute lists normalised. *)
Record stored := {
  s_mkt : market;                 (* fee tables and flags *)
  s_req_ask : list bytes;
  s_req_bid : list bytes;
  s_req_com : list bytes
}.

(** MsgGovCreateMarketRequest.ValidateBasic (required-attribute part) followed by
    Keeper.CreateMarket: [None] = rejected. *)
Definition create_market (m : market) : option stored :=
  let ra := map bytes_of (m_req_ask m) in
  let rb := map bytes_of (m_req_bid m) in
  let rc := map bytes_of (m_req_com m) in
  if validate_req_attrs ra && validate_req_attrs rb && validate_req_attrs rc then
    let '(na, oka) := normalize_req_attrs ra in
    let '(nb, okb) := normalize_req_attrs rb in
    let '(nc, okc) := normalize_req_attrs rc in
    if oka && okb && okc then
      Some {| s_mkt := m; s_req_ask := na; s_req_bid := nb; s_req_com := nc |}
    else None
  else None.

(** Keeper.UpdateMarketAcceptingOrders / UpdateUserSettlementAllowed /
    UpdateMarketAcceptingCommitments: the three flags are replaced, nothing else changes. *)
Definition set_flags (m : market) (ao us ac : bool) : market :=
  {| m_create_ask := m_create_ask m; m_create_bid := m_create_bid m; m_create_com := m_create_com m;
     m_seller_flat := m_seller_flat m; m_seller_ratios := m_seller_ratios m;
     m_buyer_flat := m_buyer_flat m; m_buyer_ratios := m_buyer_ratios m;
     m_accepting_orders := ao; m_user_settle := us; m_accepting_commitments := ac;
     m_req_ask := m_req_ask m; m_req_bid := m_req_bid m; m_req_com := m_req_com m |}.
Definition set_flags_stored (s : stored) (ao us ac : bool) : stored :=
  {| s_mkt := set_flags (s_mkt s) ao us ac;
     s_req_ask := s_req_ask s; s_req_bid := s_req_bid s; s_req_com := s_req_com s |}.

(** ** Requests *)
Inductive action :=
| ACreateAsk (price : coin) (settle_flat : option coin) (creation_fee : option coin)
| ACreateBid (price : coin) (settle_fees : list coin) (creation_fee : option coin)
| ACommit (creation_fee : option coin)
| AFillBids (bids_price : coin) (settle_flat : option coin) (creation_fee : option coin)
| AFillAsks (total_price : coin) (settle_fees : list coin) (creation_fee : option coin).

(** The admission decision: [mk] is the stored market ([None]: the market id is unknown), [accs] the
    names of the attributes on the requesting account.  The order of the conjuncts is the order
    of the checks in the Go code (irrelevant for the boolean, kept for readability). *)
Definition admits (mk : option stored) (accs : list bytes) (a : action) : bool :=
  match mk with
  | None => false
  | Some s =>
      let m := s_mkt s in
      match a with
      | ACreateAsk price sflat cfee =>
          m_accepting_orders m
          && acct_has_req_attrs (s_req_ask s) accs
          && validate_flat_fee (m_create_ask m) cfee
          && validate_flat_fee (m_seller_flat m) sflat
          && validate_ask_price (m_seller_ratios m) price sflat
      | ACreateBid price sfees cfee =>
          m_accepting_orders m
          && acct_has_req_attrs (s_req_bid s) accs
          && validate_flat_fee (m_create_bid m) cfee
          && validate_buyer_settlement_fee (m_buyer_flat m) (m_buyer_ratios m) price sfees
      | ACommit cfee =>
          validate_flat_fee (m_create_com m) cfee
          && m_accepting_commitments m
          && acct_has_req_attrs (s_req_com s) accs
      | AFillBids bprice sflat cfee =>
          m_accepting_orders m && m_user_settle m
          && acct_has_req_attrs (s_req_ask s) accs
          && validate_flat_fee (m_create_ask m) cfee
          && validate_flat_fee (m_seller_flat m) sflat
          && is_some (seller_ratio (m_seller_ratios m) (denom_of bprice))
      | AFillAsks tprice sfees cfee =>
          m_accepting_orders m && m_user_settle m
          && acct_has_req_attrs (s_req_bid s) accs
          && validate_flat_fee (m_create_bid m) cfee
          && validate_buyer_settlement_fee (m_buyer_flat m) (m_buyer_ratios m) tprice sfees
          && is_some (seller_ratio (m_seller_ratios m) (denom_of tprice))
      end
  end.

(** The exported Validate* / CanCreate* keeper methods on a market id that may be unknown: an
    unknown id has empty tables, so every such check passes. *)
Definition empty_market : market :=
  {| m_create_ask := []; m_create_bid := []; m_create_com := []; m_seller_flat := [];
     m_seller_ratios := []; m_buyer_flat := []; m_buyer_ratios := [];
     m_accepting_orders := false; m_user_settle := false; m_accepting_commitments := false;
     m_req_ask := []; m_req_bid := []; m_req_com := [] |}.
Definition empty_stored : stored :=
  {| s_mkt := empty_market; s_req_ask := []; s_req_bid := []; s_req_com := [] |}.
Definition tables (mk : option stored) : stored :=
  match mk with Some s => s | None => empty_stored end.
