(** Stateful model of order settlement through the exchange keeper (property C01).

    Go sources transcribed:
      x/exchange/keeper/fulfillment.go  SettleOrders, FillBids, FillAsks, closeSettlement
      x/exchange/keeper/keeper.go       DoTransfer, CalculateExchangeSplit, CollectFee, CollectFees
      x/exchange/keeper/orders.go       getAskOrders / getBidOrders, releaseHoldOnOrder
      x/exchange/keeper/market.go       getSellerSettlementRatio, calculateSellerSettlementRatioFee,
                                        validateFlatFee, validateBuyerSettlementFee (flat-only case)
      x/exchange/msgs.go                ValidateBasic of MsgMarketSettle / MsgFillBids / MsgFillAsks
                                        (the order id list checks)
    External modules, modelled and trusted (and checked by the correspondence run):
      bank   SendCoins = subUnlockedCoins + addCoins; InputOutputCoinsProv = totals equal, subtract
             every input (spendable = balance - hold), then add every output; no restricted
             denoms, no sanctioned or quarantined accounts, no vesting accounts are involved;
      hold   AddHold needs spendable >= amount; ReleaseHold needs amount on hold >= amount.
    One market, accepting orders, allowing user settlement, no required attributes, no creation
    fees, no buyer ratio fees.  Order creation is a set-up operation: its acceptance and the
    order id are taken from the implementation ([OCreate o accepted]); admission rules belong to
    property C20.  NAV recording and events are not modelled.  A failed operation returns the old
    state (tx rollback).  No proofs in this file. *)
From Coq Require Import ZArith List Bool PArith.
From PV Require Import Exchange.Arith.
From PV Require Export Exchange.Fulfill.
Import ListNotations.
Open Scope Z_scope.
Open Scope res_scope.

(** ** Finite maps (address, denom) -> amount, default 0. *)
Definition amap := list (addr * denom * Z).

Fixpoint aget (m : amap) (a : addr) (d : denom) : Z :=
  match m with
  | [] => 0
  | (a', d', z) :: r => if Pos.eqb a a' && Pos.eqb d d' then z else aget r a d
  end.

Fixpoint aadd (m : amap) (a : addr) (d : denom) (z : Z) : amap :=
  match m with
  | [] => [(a, d, z)]
  | (a', d', z') :: r =>
      if Pos.eqb a a' && Pos.eqb d d' then (a', d', z' + z) :: r else (a', d', z') :: aadd r a d z
  end.

Record config := {
  c_ratios : list ratio;           (* seller settlement ratios (price denom = fee denom) *)
  c_splits : list (denom * Z);     (* params.DenomSplits *)
  c_default_split : Z;             (* params.DefaultSplit *)
  c_seller_flat : coins;           (* seller settlement flat fee options *)
  c_buyer_flat : coins;            (* buyer settlement flat fee options *)
  c_market : addr;                 (* the market's account *)
  c_feecol : addr }.               (* the fee collector module account *)

Record state := { st_bal : amap; st_hold : amap; st_orders : list order }.

(** ** Bank *)
Fixpoint sub_unlocked (bal hold : amap) (a : addr) (c : coins) : res amap :=
  match c with
  | [] => Ok bal
  | (d, z) :: r =>
      if aget bal a d - aget hold a d <? z then Err
      else sub_unlocked (aadd bal a d (- z)) hold a r
  end.

Definition add_coins (bal : amap) (a : addr) (c : coins) : amap :=
  fold_left (fun m x => aadd m a (fst x) (snd x)) c bal.

Definition send (bal hold : amap) (from to : addr) (c : coins) : res amap :=
  bal' <- sub_unlocked bal hold from c ;; Ok (add_coins bal' to c).

Definition idx_total (i : indexed) : coins := fold_left (fun acc e => coins_add acc (snd e)) i [].

Fixpoint sub_inputs (bal hold : amap) (ins : indexed) : res amap :=
  match ins with
  | [] => Ok bal
  | (a, c) :: r => bal' <- sub_unlocked bal hold a c ;; sub_inputs bal' hold r
  end.

Definition add_outputs (bal : amap) (outs : indexed) : amap :=
  fold_left (fun m e => add_coins m (fst e) (snd e)) outs bal.

Definition input_output (bal hold : amap) (ins outs : indexed) : res amap :=
  match ins, outs with
  | [], _ | _, [] => Err
  | _ :: _ :: _, _ :: _ :: _ => Err
  | _, _ =>
      if negb (coins_eqb (idx_total ins) (idx_total outs)) then Err
      else bal' <- sub_inputs bal hold ins ;; Ok (add_outputs bal' outs)
  end.

(** DoTransfer *)
Definition do_transfer (bal hold : amap) (t : transfer) : res amap :=
  match t_in t, t_out t with
  | [(fa, fc)], [(ta, tc)] => if coins_eqb fc tc then send bal hold fa ta fc else Err
  | ins, outs => input_output bal hold ins outs
  end.

(** ** Hold *)
Fixpoint release_hold (hold : amap) (a : addr) (c : coins) : res amap :=
  match c with
  | [] => Ok hold
  | (d, z) :: r =>
      if aget hold a d - z <? 0 then Err else release_hold (aadd hold a d (- z)) a r
  end.

Fixpoint add_hold (bal hold : amap) (a : addr) (c : coins) : res amap :=
  match c with
  | [] => Ok hold
  | (d, z) :: r =>
      if aget bal a d - aget hold a d <? z then Err else add_hold bal (aadd hold a d z) a r
  end.

(** ** Fees *)
Definition get_split (cfg : config) (d : denom) : Z :=
  match find (fun x => Pos.eqb (fst x) d) (c_splits cfg) with
  | Some (_, s) => s
  | None => c_default_split cfg
  end.

(** CalculateExchangeSplit *)
Fixpoint calc_split (cfg : config) (fee : coins) : res coins :=
  match fee with
  | [] => Ok []
  | (d, z) :: r =>
      x <- of_opt (exchange_split_chk z (get_split cfg d)) ;;
      rest <- calc_split cfg r ;;
      Ok (coins_add1 rest d x)
  end.

(** CollectFee *)
Definition collect_fee (cfg : config) (bal hold : amap) (payer : addr) (fee : coins) : res amap :=
  if coins_is_zero fee then Ok bal
  else
    ex <- calc_split cfg fee ;;
    bal1 <- send bal hold payer (c_market cfg) fee ;;
    if coins_is_zero ex then Ok bal1 else send bal1 hold (c_market cfg) (c_feecol cfg) ex.

(** CollectFees *)
Definition collect_fees (cfg : config) (bal hold : amap) (inputs : indexed) : res amap :=
  match inputs with
  | [] => Ok bal
  | [(payer, fee)] => collect_fee cfg bal hold payer fee
  | _ =>
      let total := idx_total inputs in
      if coins_is_zero total then Ok bal
      else
        ex <- calc_split cfg total ;;
        bal1 <- input_output bal hold inputs [(c_market cfg, total)] ;;
        if coins_is_zero ex then Ok bal1 else send bal1 hold (c_market cfg) (c_feecol cfg) ex
  end.

(** getSellerSettlementRatio: a market with ratios but none for this denom is an error. *)
Definition ratio_lookup (cfg : config) (d : denom) : res (option ratio) :=
  match find (fun r => Pos.eqb (r_pd r) d && Pos.eqb (r_fd r) d) (c_ratios cfg) with
  | Some r => Ok (Some r)
  | None => match c_ratios cfg with [] => Ok None | _ => Err end
  end.

(** calculateSellerSettlementRatioFee on one price coin. *)
Definition seller_ratio_fee (cfg : config) (pd : denom) (p : Z) : res coins :=
  r <- ratio_lookup cfg pd ;;
  match r with
  | None => Ok []
  | Some rt => '(d, amt) <- ratio_fee rt pd p ;; Ok (coins_add1 [] d amt)
  end.

(** validateFlatFee *)
Definition validate_flat (opts : coins) (fee : option coin) : bool :=
  match opts with
  | [] => true
  | _ => match fee with
         | None => false
         | Some (d, z) =>
             match find (fun x => Pos.eqb (fst x) d) opts with
             | Some (_, req) => negb (z <? req)
             | None => false
             end
         end
  end.

(** validateBuyerSettlementFee when the market has no buyer ratios. *)
Definition validate_buyer_flat (opts : coins) (fees : coins) : bool :=
  match opts with
  | [] => true
  | _ => existsb (fun c =>
           match find (fun x => Pos.eqb (fst x) (fst c)) opts with
           | Some (_, req) => negb (snd c <? req)
           | None => false
           end) fees
  end.

(** ** Order store *)
Fixpoint find_order (os : list order) (id : positive) : option order :=
  match os with
  | [] => None
  | o :: r => if Pos.eqb (o_id o) id then Some o else find_order r id
  end.

Fixpoint set_order (os : list order) (o : order) : list order :=
  match os with
  | [] => [o]
  | x :: r => if Pos.eqb (o_id x) (o_id o) then o :: r else x :: set_order r o
  end.

Definition del_order (os : list order) (id : positive) : list order :=
  filter (fun o => negb (Pos.eqb (o_id o) id)) os.

(** getAskOrders / getBidOrders *)
Fixpoint get_orders (os : list order) (want_ask : bool) (ids : list positive) (excl : option addr)
  : res (list order) :=
  match ids with
  | [] => Ok []
  | id :: r =>
      match find_order os id with
      | None => Err
      | Some o =>
          if negb (Bool.eqb (o_ask o) want_ask) then Err
          else if match excl with Some x => Pos.eqb x (o_owner o) | None => false end then Err
          else rest <- get_orders os want_ask r excl ;; Ok (o :: rest)
      end
  end.

Fixpoint nodup_ids (l : list positive) : bool :=
  match l with
  | [] => true
  | x :: r => negb (existsb (Pos.eqb x) r) && nodup_ids r
  end.

(** ValidateOrderIDs *)
Definition valid_ids (l : list positive) : bool :=
  match l with [] => false | _ => nodup_ids l end.

Definition disjoint_ids (a b : list positive) : bool :=
  forallb (fun x => negb (existsb (Pos.eqb x) b)) a.

(** ** closeSettlement *)
Definition filled_list (s : settlement) : list filled :=
  s_full s ++ match s_partial s with Some p => [p] | None => [] end.

Fixpoint release_all (hold : amap) (fs : list filled) : res amap :=
  match fs with
  | [] => Ok hold
  | f :: r =>
      hold' <- release_hold hold (o_owner (fo_order f)) (hold_amount (fo_order f)) ;;
      release_all hold' r
  end.

Fixpoint transfer_all (bal hold : amap) (ts : list transfer) : res amap :=
  match ts with
  | [] => Ok bal
  | t :: r => bal' <- do_transfer bal hold t ;; transfer_all bal' hold r
  end.

Definition close (cfg : config) (st : state) (s : settlement) : res state :=
  hold1 <- release_all (st_hold st) (filled_list s) ;;
  bal1 <- transfer_all (st_bal st) hold1 (s_transfers s) ;;
  bal2 <- collect_fees cfg bal1 hold1 (s_fee_inputs s) ;;
  let os1 := match s_left s with Some l => set_order (st_orders st) l | None => st_orders st end in
  let os2 := fold_left (fun os f => del_order os (o_id (fo_order f))) (s_full s) os1 in
  Ok {| st_bal := bal2; st_hold := hold1; st_orders := os2 |}.

(** SettleOrders (after MsgMarketSettleRequest.ValidateBasic) *)
Definition settle (cfg : config) (st : state) (askids bidids : list positive) (expect_partial : bool)
  : res state :=
  if negb (valid_ids askids && valid_ids bidids && disjoint_ids askids bidids) then Err
  else
    asks <- get_orders (st_orders st) true askids None ;;
    bids <- get_orders (st_orders st) false bidids None ;;
    let lookup := match asks with a :: _ => ratio_lookup cfg (o_pd a) | [] => Err end in
    s <- build asks bids lookup ;;
    match expect_partial, s_partial s with
    | false, Some _ => Err
    | true, None => Err
    | _, _ => close cfg st s
    end.

Definition sum_assets (os : list order) : coins :=
  fold_left (fun acc o => coins_add1 acc (o_ad o) (o_assets o)) os [].
Definition sum_price (os : list order) : coins :=
  fold_left (fun acc o => coins_add1 acc (o_pd o) (o_price o)) os [].

Fixpoint ratio_fees_of (cfg : config) (price : coins) : res coins :=
  match price with
  | [] => Ok []
  | (d, p) :: r =>
      f <- seller_ratio_fee cfg d p ;;
      rest <- ratio_fees_of cfg r ;;
      Ok (coins_add rest f)
  end.

(** FillBids *)
Definition fill_bids (cfg : config) (st : state) (seller : addr) (ids : list positive)
    (total_assets : coins) (flat : option coin) : res state :=
  if negb (valid_ids ids && negb (coins_is_zero total_assets)) then Err
  else if negb (validate_flat (c_seller_flat cfg) flat) then Err
  else
    bids <- get_orders (st_orders st) false ids (Some seller) ;;
    if negb (coins_eqb (sum_assets bids) total_assets) then Err
    else
      let total_price := sum_price bids in
      let flatc := match flat with Some (d, z) => coins_add1 [] d z | None => [] end in
      let aidx := fold_left (fun i o => idx_add i (o_owner o) [(o_ad o, o_assets o)]) bids [] in
      let pidx := fold_left (fun i o => idx_add i (o_owner o) [(o_pd o, o_price o)]) bids [] in
      let fidx := fold_left (fun i o => idx_add i (o_owner o) (o_fees o)) bids [] in
      let full := map (fun o => {| fo_order := o; fo_price := o_price o; fo_fees := o_fees o |}) bids in
      rf <- ratio_fees_of cfg total_price ;;
      let seller_fee := coins_add flatc rf in
      let fidx' := idx_add fidx seller seller_fee in
      outs <- idx_get aidx ;;
      ins <- idx_get pidx ;;
      fi <- (match fidx' with [] => Ok [] | _ => idx_get fidx' end) ;;
      close cfg st {| s_transfers := [ {| t_in := [(seller, total_assets)]; t_out := outs |};
                                       {| t_in := ins; t_out := [(seller, total_price)] |} ];
                      s_fee_inputs := fi; s_full := full; s_partial := None; s_left := None |}.

Fixpoint ask_fills (cfg : config) (asks : list order) : res (list filled) :=
  match asks with
  | [] => Ok []
  | o :: r =>
      f <- seller_ratio_fee cfg (o_pd o) (o_price o) ;;
      rest <- ask_fills cfg r ;;
      Ok ({| fo_order := o; fo_price := o_price o; fo_fees := coins_add (o_fees o) f |} :: rest)
  end.

(** FillAsks *)
Definition fill_asks (cfg : config) (st : state) (buyer : addr) (ids : list positive)
    (total_price : coin) (fees : coins) : res state :=
  if negb (valid_ids ids && (0 <? snd total_price)) then Err
  else if negb (validate_buyer_flat (c_buyer_flat cfg) fees) then Err
  else
    asks <- get_orders (st_orders st) true ids (Some buyer) ;;
    if negb (coins_eqb (sum_price asks) [total_price]) then Err
    else
      let total_assets := sum_assets asks in
      full <- ask_fills cfg asks ;;
      let aidx := fold_left (fun i o => idx_add i (o_owner o) [(o_ad o, o_assets o)]) asks [] in
      let pidx := fold_left (fun i o => idx_add i (o_owner o) [(o_pd o, o_price o)]) asks [] in
      let fidx := fold_left (fun i f => idx_add i (o_owner (fo_order f)) (fo_fees f)) full [] in
      let fidx' := idx_add fidx buyer fees in
      ins <- idx_get aidx ;;
      outs <- idx_get pidx ;;
      fi <- (match fidx' with [] => Ok [] | _ => idx_get fidx' end) ;;
      close cfg st {| s_transfers := [ {| t_in := ins; t_out := [(buyer, total_assets)] |};
                                       {| t_in := [(buyer, [total_price])]; t_out := outs |} ];
                      s_fee_inputs := fi; s_full := full; s_partial := None; s_left := None |}.

(** ** Operations and histories *)
Inductive op :=
| OCreate (o : order) (accepted : bool)
| OSettle (askids bidids : list positive) (expect_partial : bool)
| OFillBids (seller : addr) (ids : list positive) (total_assets : coins) (flat : option coin)
| OFillAsks (buyer : addr) (ids : list positive) (total_price : coin) (fees : coins).

Definition create (st : state) (o : order) : res state :=
  hold' <- add_hold (st_bal st) (st_hold st) (o_owner o) (hold_amount o) ;;
  Ok {| st_bal := st_bal st; st_hold := hold'; st_orders := st_orders st ++ [o] |}.

Definition run_op (cfg : config) (st : state) (o : op) : res state :=
  match o with
  | OCreate ord true => create st ord
  | OCreate _ false => Err
  | OSettle a b e => settle cfg st a b e
  | OFillBids s ids ta fl => fill_bids cfg st s ids ta fl
  | OFillAsks b ids tp fs => fill_asks cfg st b ids tp fs
  end.

(** [step]: an errored (or panicking) operation leaves the old state. *)
Definition step (cfg : config) (st : state) (o : op) : state * bool :=
  match run_op cfg st o with
  | Ok st' => (st', true)
  | _ => (st, false)
  end.

Definition run (cfg : config) (st : state) (ops : list op) : state :=
  fold_left (fun s o => fst (step cfg s o)) ops st.
