(** Row types of the tables that the translator (translate/goextract + translate/gen_coq.py)
    regenerates from the Go source on every run: coq/Gen/GenExchangePerms.v and
    coq/Gen/GenGovEndpoints.v contain only [Definition]s of lists of these records.
    Every string is source text (identifier, field name or normalised statement). *)
From Coq Require Import List String.

(** The guard of a handler of x/exchange/keeper/msg_server.go: the first statement that uses the
    keeper at all (statements that do not mention the receiver — context unwrapping, address
    parsing — are skipped). *)
Inductive ep_guard :=
| EGCan (helper market_field caller_field : string)
    (* if !k.<helper>(ctx, msg.<market_field>, msg.<caller_field>) { return nil, <error> } *)
| EGAuthority (field : string)
    (* if err := k.ValidateAuthority(msg.<field>); err != nil { return nil, <error> } *)
| EGReject                      (* the body is `return nil, <error>` *)
| EGNone (first_call : string)  (* no guard statement; the first keeper call made *)
| EGUnrecognised (text : string). (* mentions a permission/authority predicate in a shape the translator does not know *)

Record ep_row := {
  ep_name : string;
  ep_guard_of : ep_guard;
  ep_index : nat;               (* position of the guard statement in the body *)
  ep_precalls : list string     (* keeper calls made by statements before the guard *)
}.

(** func (k Keeper) CanXxx(ctx, marketID, admin string) bool { return k.HasPermission(ctx, marketID, admin, exchange.<ch_perm>) }
    — anything else gives ch_perm = "Unrecognised: <body>". *)
Record can_row := { ch_name : string; ch_perm : string }.

(** Normalised source text of a small function, one string per top-level statement. *)
Record func_shape := { fs_name : string; fs_sig : string; fs_stmts : list string }.

(** Keeper.CancelOrder: if <signer> != <owner> && !k.<helper>(ctx, <market_src>, <caller>) { return <error> } *)
Record cancel_row := {
  co_kind : string;             (* "OwnerOr" or "Unrecognised" *)
  co_signer : string; co_owner : string; co_owner_src : string;
  co_helper : string; co_market_src : string; co_caller : string;
  co_precalls : list string; co_pre_write : bool; co_text : string
}.

(** A payment function of keeper/payments.go: its top-level `if A != B { return <error> }`
    comparisons and the calls by which it reads payments from the store. *)
Record payment_row := {
  pf_func : string; pf_sig : string;
  pf_conds : list (string * string);
  pf_lookups : list string
}.

(** The guard of a handler whose request type has an [Authority string] field. *)
Inductive gov_guard :=
| GvAuthority (via : string)
    (* rejects unless msg.Authority equals the keeper's authority; via = "ValidateAuthority" |
       "GetAuthority" | "authority" *)
| GvAuthorityOr (alt : string)
    (* passes for the keeper's authority, otherwise requires <alt> (another right over the object) *)
| GvOther (other : string)       (* msg.Authority is compared with something that is not the keeper's authority *)
| GvReject                       (* the body is `return nil, <error>` *)
| GvNone (first_call : string)   (* msg.Authority is never compared *)
| GvUnrecognised (text : string).

Record gov_row := {
  gv_module : string; gv_endpoint : string; gv_request : string;
  gv_guard : gov_guard;
  gv_index : nat;
  gv_precalls : list string;     (* keeper calls made by statements before the guard *)
  gv_pre_write : bool            (* one of them is not a Get/Has/Is/Validate/Can… read *)
}.
