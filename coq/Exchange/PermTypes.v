(** Row types of the tables that the translator (translate/goextract + translate/gen_coq.py)
    regenerates from the Go source on every run: coq/Gen/GenExchangePerms.v and
    coq/Gen/GenGovEndpoints.v contain only [Definition]s of lists of these records.
    Every string is source text (identifier, field name or normalised statement). *)
From Coq Require Import List String.

(** The guard of a handler of x/exchange/keeper/msg_server.go: the first statement that uses the
    keeper at all (statements that do not mention the receiver — context unwrapping, address
    parsing — are skipped). *)
Inductive ep_guard :=
| EGCan (helper market_field caller_field : string)
    (* if !k.<helper>(ctx, msg.<market_field>, msg.<caller_field>) { return nil, <error> } *)
| EGAuthority (field : string)
    (* if err := k.ValidateAuthority(msg.<field>); err != nil { return nil, <error> } *)
| EGReject                      (* the body is `return nil, <error>` *)
| EGNone (first_call : string)  (* no guard statement; the first keeper call made *)
| EGUnrecognised (text : string). (* mentions a permission/authority predicate in a shape the translator does not know *)

Record ep_row := {
  ep_name : string;
  ep_guard_of : ep_guard;
  ep_index : nat;               (* position of the guard statement in the body *)
  ep_precalls : list string     (* keeper calls made by statements before the guard *)
}.

(** func (k Keeper) CanXxx(ctx, marketID, admin string) bool { return k.HasPermission(ctx, marketID, admin, exchange.<ch_perm>) }
    — anything else gives ch_perm = "Unrecognised: <body>". *)
Record can_row := { ch_name : string; ch_perm : string }.

(** Normalised source text of a small function, one string per top-level statement. *)
Record func_shape := { fs_name : string; fs_sig : string; fs_stmts : list string }.

(** Keeper.CancelOrder: if <signer> != <owner> && !k.<helper>(ctx, <market_src>, <caller>) { return <error> } *)
Record cancel_row := {
  co_kind : string;             (* "OwnerOr" or "Unrecognised" *)
  co_signer : string; co_owner : string; co_owner_src : string;
  co_helper : string; co_market_src : string; co_caller : string;
  co_precalls : list string; co_pre_write : bool; co_text : string
}.

(** A payment function of keeper/payments.go: its top-level `if A != B { return <error> }`
    comparisons and the calls by which it reads payments from the store. *)
Record payment_row := {
  pf_func : string; pf_sig : string;
  pf_conds : list (string * string);
  pf_lookups : list string
}.

(** The guard of a handler whose request type has an [Authority string] field. *)
Inductive gov_guard :=
| GvAuthority (via : string)
    (* rejects unless msg.Authority equals the keeper's authority; via = "ValidateAuthority" |
       "GetAuthority" | "authority" *)
| GvAuthorityOr (alt : string)
    (* passes for the keeper's authority, otherwise requires <alt> (another right over the object) *)
| GvOther (other : string)       (* msg.Authority is compared with something that is not the keeper's authority *)
| GvReject                       (* the body is `return nil, <error>` *)
| GvNone (first_call : string)   (* msg.Authority is never compared *)
| GvUnrecognised (text : string).

Record gov_row := {
  gv_module : string; gv_endpoint : string; gv_request : string;
  gv_guard : gov_guard;
  gv_index : nat;
  gv_precalls : list string;     (* keeper calls made by statements before the guard *)
  gv_pre_write : bool            (* one of them is not a Get/Has/Is/Validate/Can… read *)
}.

(** ------------------------------------------------------------------ control-flow paths
    (translate/goextract/paths.go -> Gen/GenHandlerPaths.v)

    A predicate recognised in a condition, read through the bindings of locals:
      GCan h m c     k.<h>(ctx, m, c)                      (a Can* permission helper; m, c normalised texts)
      GAuth who via  <who> is the keeper's authority       (via ValidateAuthority / IsAuthority /
                                                            GetAuthority() / the authority field)
      GEq a b        a == b                                (operands normalised, sorted)
      GCallOk t      the read-only call t returned no error / true
      GAny l, GAll l disjunction / conjunction *)
Inductive gpred :=
| GCan (helper market caller : string)
| GAuth (who via : string)
| GEq (a b : string)
| GCallOk (text : string)
| GAny (l : list gpred)
| GAll (l : list gpred).

(** One event of a path: the branch taken at a recognised predicate (pass = the predicate holds on
    this path), a call that can write state, a return (ok = the error result is nil), a panic, or
    control flow the translator does not follow (goto, labels, select, go, fallthrough). *)
Inductive ev :=
| EvGuard (pass : bool) (g : gpred)
| EvWrite (callee text : string)
| EvRet (ok : bool)
| EvPanic
| EvUnstructured (what : string).

Record hp_row := {
  hp_kind : string;              (* "exchange" | "msg" | "keeper" *)
  hp_module : string; hp_endpoint : string; hp_request : string;
  hp_auth_who : list string;     (* every expression compared with the keeper's authority in the body *)
  hp_has_field : bool;           (* the request type has an [Authority string] field *)
  hp_paths : list (list ev)
}.

(** A Query handler: the calls it makes that can reach the store and are not read-only by name. *)
Record qh_write := { qw_call : string; qw_text : string; qw_branched : bool }.
Record qh_row := {
  qh_module : string; qh_endpoint : string; qh_request : string;
  qh_writes : list qh_write;
  qh_unstructured : list string
}.
