(** C13 model: pagination of the exchange listings.

    Transcribed from
      /repo/x/exchange/keeper/orders.go   getOrderIterator, filteredPaginateAfterOrder,
                                          getPageOfOrdersFromIndex (hit test / accumulator)
      /repo/x/exchange/keeper/grpc_query.go  GetMarketOrders, GetOwnerOrders, GetAssetOrders,
                                          GetAllOrders, GetPaymentsWithSource, GetPaymentsWithTarget,
                                          GetAllPayments (which paginate function over which prefix)
      cosmos-sdk types/query/pagination.go (getIterator, Paginate, initPageRequestDefaults) and
      filtered_pagination.go (FilteredPaginate) -- SDK code, modelled because three endpoints use it.
    All functions work on [l], the ascending contents of the prefix store (Exchange/KV.v).
    uint64: [offset + limit], [end + 1] and [afterOrderID + 1] are computed mod 2^64 as in Go
    (filteredPaginateAfterOrder clamps an overflowing end, commit 9f0ea4287; the SDK routines do not);
    [numHits]/[count] are bounded by the number of store entries and are not wrapped.
    A page request key of [] stands for both nil and empty (requests never carry an empty non-nil
    key here); a response next key of [] means "no next key" for the client -- INCLUDING the case
    where Go returns the empty, non-nil key of an entry whose prefix-store key is empty.
    [None] = the function returns an error or panics (Key() on an exhausted iterator).
    No proofs in this file. *)
From Coq Require Import ZArith NArith List Bool.
From PV Require Export Exchange.Index.
Import ListNotations.
Open Scope N_scope.

Record page_req := {
  pr_key : key;
  pr_offset : N;
  pr_limit : N;
  pr_count_total : bool;
  pr_reverse : bool
}.

Record page_resp := {
  ps_next : key;    (* [] = none *)
  ps_total : N
}.

Definition default_limit : N := 100.
Definition wrap64 (x : N) : N := x mod two64.

Definition is_nil (k : key) : bool := match k with [] => true | _ => false end.

Section Paginate.
  Variable V : Type.
  Notation view := (list (key * V)).

  (** The end bound both getIterator and getOrderIterator compute for reverse iteration from a
      start key: the key following the first entry >= start.  [None] = panic: Next() moved past
      the last entry and Key() was called. [Some None] = no bound. *)
  Definition reverse_end (l : view) (start : key) : option (option key) :=
    if is_nil start then Some None else
    match iter_fwd l (Some start) with
    | [] => Some None
    | [_] => None
    | _ :: (k2, _) :: _ => Some (Some k2)
    end.

  (** The first key getOrderIterator uses for an after-order bound (exclusive bound, except that
      2^64-1 is not incremented). *)
  Definition after_start (after : N) : option key :=
    if after =? 0 then None
    else Some (u64be (if after =? u64max then after else wrap64 (after + 1))).

  (** getOrderIterator *)
  Definition get_order_iterator (l : view) (start : key) (reverse : bool) (after : N)
    : option view :=
    if reverse then
      match reverse_end l start with
      | None => None
      | Some end_ => Some (iter_rev l (after_start after) end_)
      end
    else
      let start' := if is_nil start && negb (after =? 0) then after_start after
                    else if is_nil start then None else Some start in
      Some (iter_fwd l start').

  (** query.getIterator *)
  Definition sdk_get_iterator (l : view) (start : key) (reverse : bool) : option view :=
    if reverse then
      match reverse_end l start with
      | None => None
      | Some end_ => Some (iter_rev l None end_)
      end
    else Some (iter_fwd l (if is_nil start then None else Some start)).

  Variable hit : key -> V -> bool.

  (** Key-mode loop of filteredPaginateAfterOrder: NextKey is the next HIT after [limit] hits. *)
  Fixpoint fpao_key_loop (it : view) (num_hits limit : N) (acc : view) : view * option key :=
    match it with
    | [] => (rev acc, None)
    | (k, v) :: r =>
        let accumulate := num_hits <? limit in
        let h := hit k v in
        let acc' := if h && accumulate then (k, v) :: acc else acc in
        if h then
          if num_hits =? limit then (rev acc', Some k)
          else fpao_key_loop r (num_hits + 1) limit acc'
        else fpao_key_loop r num_hits limit acc'
    end.

  (** Offset-mode loop shared by filteredPaginateAfterOrder and query.FilteredPaginate. *)
  Fixpoint offset_loop (it : view) (num_hits offset end_ : N) (count_total : bool)
           (next : option key) (acc : view) : view * option key * N :=
    match it with
    | [] => (rev acc, next, num_hits)
    | (k, v) :: r =>
        let accumulate := (offset <=? num_hits) && (num_hits <? end_) in
        let h := hit k v in
        let acc' := if h && accumulate then (k, v) :: acc else acc in
        let num_hits' := if h then num_hits + 1 else num_hits in
        if num_hits' =? wrap64 (end_ + 1) then
          let next' := match next with None => Some k | Some _ => next end in
          if count_total then offset_loop r num_hits' offset end_ count_total next' acc'
          else (rev acc', next', num_hits')
        else offset_loop r num_hits' offset end_ count_total next acc'
    end.

  Definition opt_key (o : option key) : key := match o with Some k => k | None => [] end.

  (** The upper bound of filteredPaginateAfterOrder since commit 9f0ea4287: when [offset + limit]
      overflowed, or [end + 1] would, it is clamped to 2^64-2 ("no reachable upper bound"). *)
  Definition clamp_end (offset e0 : N) : N :=
    if (e0 <? offset) || (e0 =? u64max) then u64max - 1 else e0.

  (** filteredPaginateAfterOrder: (accumulated entries, response). *)
  Definition filtered_paginate_after_order (l : view) (rq : page_req) (after : N)
    : option (view * page_resp) :=
    if (0 <? pr_offset rq) && negb (is_nil (pr_key rq)) then None else
    let limit := if pr_limit rq =? 0 then default_limit else pr_limit rq in
    let count_total := if pr_limit rq =? 0 then true else pr_count_total rq in
    if negb (is_nil (pr_key rq)) then
      match get_order_iterator l (pr_key rq) (pr_reverse rq) after with
      | None => None
      | Some it =>
          let '(acc, next) := fpao_key_loop it 0 limit [] in
          Some (acc, {| ps_next := opt_key next; ps_total := 0 |})
      end
    else
      match get_order_iterator l [] (pr_reverse rq) after with
      | None => None
      | Some it =>
          let end_ := clamp_end (pr_offset rq) (wrap64 (pr_offset rq + limit)) in
          let '(acc, next, n) := offset_loop it 0 (pr_offset rq) end_ count_total None [] in
          Some (acc, {| ps_next := opt_key next; ps_total := if count_total then n else 0 |})
      end.

  (** Key-mode loop of query.FilteredPaginate: NextKey is the next ENTRY after [limit] hits. *)
  Fixpoint sdk_fp_key_loop (it : view) (num_hits limit : N) (acc : view) : view * option key :=
    match it with
    | [] => (rev acc, None)
    | (k, v) :: r =>
        if num_hits =? limit then (rev acc, Some k)
        else if hit k v then sdk_fp_key_loop r (num_hits + 1) limit ((k, v) :: acc)
        else sdk_fp_key_loop r num_hits limit acc
    end.

  (** query.FilteredPaginate *)
  Definition sdk_filtered_paginate (l : view) (rq : page_req) : option (view * page_resp) :=
    if (0 <? pr_offset rq) && negb (is_nil (pr_key rq)) then None else
    let limit := if pr_limit rq =? 0 then default_limit else pr_limit rq in
    let count_total := if pr_limit rq =? 0 then true else pr_count_total rq in
    match sdk_get_iterator l (pr_key rq) (pr_reverse rq) with
    | None => None
    | Some it =>
        if negb (is_nil (pr_key rq)) then
          let '(acc, next) := sdk_fp_key_loop it 0 limit [] in
          Some (acc, {| ps_next := opt_key next; ps_total := 0 |})
        else
          let end_ := wrap64 (pr_offset rq + limit) in
          let '(acc, next, n) := offset_loop it 0 (pr_offset rq) end_ count_total None [] in
          Some (acc, {| ps_next := opt_key next; ps_total := if count_total then n else 0 |})
    end.

  (** Key-mode loop of query.Paginate. *)
  Fixpoint sdk_p_key_loop (it : view) (count limit : N) (acc : view) : view * option key :=
    match it with
    | [] => (rev acc, None)
    | (k, v) :: r =>
        if count =? limit then (rev acc, Some k)
        else sdk_p_key_loop r (count + 1) limit ((k, v) :: acc)
    end.

  (** Offset-mode loop of query.Paginate. *)
  Fixpoint sdk_p_offset_loop (it : view) (count offset end_ : N) (count_total : bool)
           (next : option key) (acc : view) : view * option key * N :=
    match it with
    | [] => (rev acc, next, count)
    | (k, v) :: r =>
        let count' := count + 1 in
        if count' <=? offset then sdk_p_offset_loop r count' offset end_ count_total next acc
        else if count' <=? end_ then
          sdk_p_offset_loop r count' offset end_ count_total next ((k, v) :: acc)
        else if count' =? wrap64 (end_ + 1) then
          if count_total then sdk_p_offset_loop r count' offset end_ count_total (Some k) acc
          else (rev acc, Some k, count')
        else sdk_p_offset_loop r count' offset end_ count_total next acc
    end.

  (** query.Paginate *)
  Definition sdk_paginate (l : view) (rq : page_req) : option (view * page_resp) :=
    if (0 <? pr_offset rq) && negb (is_nil (pr_key rq)) then None else
    let limit := if pr_limit rq =? 0 then default_limit else pr_limit rq in
    let count_total := if pr_limit rq =? 0 then true else pr_count_total rq in
    match sdk_get_iterator l (pr_key rq) (pr_reverse rq) with
    | None => None
    | Some it =>
        if negb (is_nil (pr_key rq)) then
          let '(acc, next) := sdk_p_key_loop it 0 limit [] in
          Some (acc, {| ps_next := opt_key next; ps_total := 0 |})
        else
          let end_ := wrap64 (pr_offset rq + limit) in
          let '(acc, next, n) := sdk_p_offset_loop it 0 (pr_offset rq) end_ count_total None [] in
          Some (acc, {| ps_next := opt_key next; ps_total := if count_total then n else 0 |})
    end.

  (** ---- following pages (what a client does) ---- *)

  (** Follow next_key from the first page; [fuel] bounds the number of pages.  Returns the
      concatenation of the pages, or [None] if a page failed or fuel ran out. *)
  Fixpoint follow_keys (page : page_req -> option (view * page_resp)) (fuel : nat)
           (limit : N) (reverse : bool) (k : key) : option view :=
    match fuel with
    | O => None
    | S f =>
        match page {| pr_key := k; pr_offset := 0; pr_limit := limit; pr_count_total := false;
                      pr_reverse := reverse |} with
        | None => None
        | Some (items, resp) =>
            if is_nil (ps_next resp) then Some items
            else match follow_keys page f limit reverse (ps_next resp) with
                 | Some rest => Some (items ++ rest)
                 | None => None
                 end
        end
    end.

  (** Page by offsets 0, limit, 2*limit, ... until a page has no next key. *)
  Fixpoint follow_offsets (page : page_req -> option (view * page_resp)) (fuel : nat)
           (limit : N) (reverse : bool) (offset : N) : option view :=
    match fuel with
    | O => None
    | S f =>
        match page {| pr_key := []; pr_offset := offset; pr_limit := limit;
                      pr_count_total := false; pr_reverse := reverse |} with
        | None => None
        | Some (items, resp) =>
            if is_nil (ps_next resp) then Some items
            else match follow_offsets page f limit reverse (offset + limit) with
                 | Some rest => Some (items ++ rest)
                 | None => None
                 end
        end
    end.
End Paginate.

Arguments reverse_end {V}.
Arguments after_start : clear implicits.
Arguments get_order_iterator {V}.
Arguments sdk_get_iterator {V}.
Arguments filtered_paginate_after_order {V}.
Arguments sdk_filtered_paginate {V}.
Arguments sdk_paginate {V}.
Arguments follow_keys {V}.
Arguments follow_offsets {V}.

(** What a complete listing is (specification side): the hits among the entries at or after the
    after-order start key, in iteration order. *)
Definition matching {V} (hit : key -> V -> bool) (l : list (key * V)) (reverse : bool) (after : N)
  : list (key * V) :=
  let inb := filter (fun kv => ge_start (after_start after) (fst kv)) l in
  filter (fun kv => hit (fst kv) (snd kv)) (if reverse then rev inb else inb).

(** ---- getPageOfOrdersFromIndex ---- *)

(** Order type filter: [None] = no filter, [Some t] = only entries whose value starts with t. *)
Definition index_hit (otype : option N) (k : key) (v : val) : bool :=
  (match otype with
   | None => true
   | Some t => match v with VBytes (t' :: _) => t' =? t | _ => false end
   end) && Nat.eqb (length k) 8.

(** The hit test before commit c4d7ece23 (any key of at least 8 bytes counts). *)
Definition index_hit_unfixed (otype : option N) (k : key) (v : val) : bool :=
  (match otype with
   | None => true
   | Some t => match v with VBytes (t' :: _) => t' =? t | _ => false end
   end) && Nat.leb 8 (length k).

(** Accumulated index entries -> the orders returned (entries whose order cannot be read are
    skipped); the id is the last 8 bytes of the key. *)
Definition fetch_orders (s : st) (acc : list (key * val)) : list (N * order) :=
  flat_map (fun kv => let id := be_decode (skipn (length (fst kv) - 8) (fst kv)) in
                      match get_order s id with Some o => [(id, o)] | None => [] end) acc.

Definition page_of_orders_from_index (s : st) (p : key) (rq : page_req) (otype : option N)
           (after : N) : option (list (N * order) * page_resp) :=
  match filtered_paginate_after_order (index_hit otype) (pstore s p) rq after with
  | Some (acc, resp) => Some (fetch_orders s acc, resp)
  | None => None
  end.

(** GetAllOrders: query.FilteredPaginate over prefix 0x02; ParseKeyOrder accepts 8-byte suffixes
    (9-byte ones starting with a type byte cannot occur under this prefix store). *)
Definition all_orders_hit (k : key) (v : val) : bool :=
  Nat.eqb (length k) 8 ||
  (Nat.eqb (length k) 9 && match k with b :: _ => (b =? 0) || (b =? 1) | [] => false end).

Definition page_of_all_orders (s : st) (rq : page_req) : option (list (N * order) * page_resp) :=
  match sdk_filtered_paginate all_orders_hit (pstore s p_all_orders) rq with
  | Some (acc, resp) =>
      Some (flat_map (fun kv => match snd kv with
                                | VOrder o => [(be_decode (skipn (length (fst kv) - 8) (fst kv)), o)]
                                | _ => []
                                end) acc, resp)
  | None => None
  end.

(** Payments listings (query.Paginate). *)
Definition page_of_payments_source (s : st) (src : bytes) (rq : page_req)
  : option (list payment * page_resp) :=
  match sdk_paginate (pstore s (p_pay_src src)) rq with
  | Some (acc, resp) =>
      Some (flat_map (fun kv => match snd kv with VPay p => [p] | _ => [] end) acc, resp)
  | None => None
  end.

Definition page_of_all_payments (s : st) (rq : page_req) : option (list payment * page_resp) :=
  match sdk_paginate (pstore s p_all_pay) rq with
  | Some (acc, resp) =>
      Some (flat_map (fun kv => match snd kv with VPay p => [p] | _ => [] end) acc, resp)
  | None => None
  end.

Definition page_of_payments_target (s : st) (t : bytes) (rq : page_req)
  : option (list payment * page_resp) :=
  match sdk_paginate (pstore s (p_tgt t)) rq with
  | Some (acc, resp) =>
      Some (flat_map (fun kv => match parse_len_prefixed (fst kv) with
                                | Some (src, e) =>
                                    match get_payment s src e with Some p => [p] | None => [] end
                                | None => []
                                end) acc, resp)
  | None => None
  end.

(** ---- the arithmetic BEFORE commit 9f0ea4287 (kept for the refutation C13_max_limit_unclamped_refuted) ----
    filteredPaginateAfterOrder without the clamp: [end := offset + limit] and [end + 1] are plain
    uint64 arithmetic, exactly as in query.FilteredPaginate. *)
Definition filtered_paginate_after_order_unclamped {V : Type} (hit : key -> V -> bool)
           (l : list (key * V)) (rq : page_req) (after : N) : option (list (key * V) * page_resp) :=
  if (0 <? pr_offset rq) && negb (is_nil (pr_key rq)) then None else
  let limit := if pr_limit rq =? 0 then default_limit else pr_limit rq in
  let count_total := if pr_limit rq =? 0 then true else pr_count_total rq in
  if negb (is_nil (pr_key rq)) then
    match get_order_iterator l (pr_key rq) (pr_reverse rq) after with
    | None => None
    | Some it =>
        let '(acc, next) := fpao_key_loop V hit it 0 limit [] in
        Some (acc, {| ps_next := opt_key next; ps_total := 0 |})
    end
  else
    match get_order_iterator l [] (pr_reverse rq) after with
    | None => None
    | Some it =>
        let end_ := wrap64 (pr_offset rq + limit) in
        let '(acc, next, n) := offset_loop V hit it 0 (pr_offset rq) end_ count_total None [] in
        Some (acc, {| ps_next := opt_key next; ps_total := if count_total then n else 0 |})
    end.

(** The request a client sends to get "everything in one page": the SDK's PaginationMaxLimit. *)
Definition max_limit_req (offset : N) (count_total reverse : bool) : page_req :=
  {| pr_key := []; pr_offset := offset; pr_limit := u64max; pr_count_total := count_total;
     pr_reverse := reverse |}.
