(** Ordered key/value store model (used by C13).

    Models what cosmossdk.io/store gives the exchange keeper:
      - keys are byte strings ([list N], one element per byte), ordered lexicographically
        (bytes.Compare), a key that is a proper prefix of another sorts first;
      - [get]/[has]/[set]/[del] = KVStore.Get/Has/Set/Delete;
      - [pstore s p] = the contents of [prefix.NewStore(s, p)]: exactly the entries whose key
        starts with [p], with [p] stripped, in ascending key order;
      - [iter_fwd l start] = Iterator(start, nil) and [iter_rev l start end] =
        ReverseIterator(start, end) on such a view: start inclusive, end exclusive, [None] = nil =
        unbounded (the SDK's half-open bounds).
    ASSUMED (SDK machinery, trusted, exercised by the correspondence run): iteration order is
    ascending bytewise key order; a prefix store shows exactly the keys having the prefix; writes
    of a failed transaction are rolled back.  The store is a strictly sorted association list.
    No proofs in this file. *)
From Coq Require Import NArith List Bool.
Import ListNotations.
Open Scope N_scope.

Definition key := list N.

Fixpoint key_compare (a b : key) : comparison :=
  match a, b with
  | [], [] => Eq
  | [], _ :: _ => Lt
  | _ :: _, [] => Gt
  | x :: a', y :: b' =>
      match N.compare x y with
      | Eq => key_compare a' b'
      | c => c
      end
  end.

Definition key_eqb (a b : key) : bool := match key_compare a b with Eq => true | _ => false end.
Definition key_ltb (a b : key) : bool := match key_compare a b with Lt => true | _ => false end.
Definition key_leb (a b : key) : bool := match key_compare a b with Gt => false | _ => true end.
Definition key_lt (a b : key) : Prop := key_compare a b = Lt.

(** [strip_prefix p k = Some r] iff [k = p ++ r]. *)
Fixpoint strip_prefix (p k : key) : option key :=
  match p, k with
  | [], _ => Some k
  | x :: p', y :: k' => if N.eqb x y then strip_prefix p' k' else None
  | _ :: _, [] => None
  end.

Section Store.
  Variable V : Type.

  Definition store := list (key * V).

  Fixpoint get (s : store) (k : key) : option V :=
    match s with
    | [] => None
    | (k', v) :: r => if key_eqb k k' then Some v else get r k
    end.

  Definition has (s : store) (k : key) : bool :=
    match get s k with Some _ => true | None => false end.

  Fixpoint set (s : store) (k : key) (v : V) : store :=
    match s with
    | [] => [(k, v)]
    | (k', v') :: r =>
        match key_compare k k' with
        | Lt => (k, v) :: s
        | Eq => (k, v) :: r
        | Gt => (k', v') :: set r k v
        end
    end.

  Definition del (s : store) (k : key) : store :=
    filter (fun kv => negb (key_eqb k (fst kv))) s.

  (** Contents of the prefix store for prefix [p] (prefix stripped, ascending). *)
  Definition pstore (s : store) (p : key) : list (key * V) :=
    flat_map (fun kv => match strip_prefix p (fst kv) with
                        | Some r => [(r, snd kv)]
                        | None => []
                        end) s.

  Definition ge_start (start : option key) (k : key) : bool :=
    match start with None => true | Some st => key_leb st k end.
  Definition lt_end (end_ : option key) (k : key) : bool :=
    match end_ with None => true | Some e => key_ltb k e end.

  (** Iterator(start, nil) over an ascending view. *)
  Definition iter_fwd (l : list (key * V)) (start : option key) : list (key * V) :=
    filter (fun kv => ge_start start (fst kv)) l.

  (** ReverseIterator(start, end) over an ascending view: descending order. *)
  Definition iter_rev (l : list (key * V)) (start end_ : option key) : list (key * V) :=
    rev (filter (fun kv => ge_start start (fst kv) && lt_end end_ (fst kv)) l).

  (** Strictly ascending keys. *)
  Fixpoint sorted_keys (l : list (key * V)) : Prop :=
    match l with
    | [] => True
    | (k, _) :: r =>
        match r with
        | [] => True
        | (k', _) :: _ => key_lt k k' /\ sorted_keys r
        end
    end.
End Store.

Arguments get {V}.
Arguments has {V}.
Arguments set {V}.
Arguments del {V}.
Arguments pstore {V}.
Arguments iter_fwd {V}.
Arguments iter_rev {V}.
Arguments sorted_keys {V}.

(** Big-endian fixed-width integers (binary.BigEndian.PutUintNN / UintNN). *)
Fixpoint be (n : nat) (x : N) : list N :=
  match n with
  | O => []
  | S n' => (x / 256 ^ N.of_nat n') :: be n' (x mod 256 ^ N.of_nat n')
  end.

Definition be_decode (l : list N) : N := fold_left (fun a b => a * 256 + b) l 0.

Definition two64 : N := 18446744073709551616.
Definition two32 : N := 4294967296.
Definition u64max : N := 18446744073709551615.

Definition u64be (x : N) : list N := be 8 (x mod two64).
Definition u32be (x : N) : list N := be 4 (x mod two32).

(** uint64FromBz: needs at least 8 bytes, reads the first 8. *)
Definition u64_from_bz (b : list N) : option N :=
  if Nat.leb 8 (length b) then Some (be_decode (firstn 8 b)) else None.

(** address.MustLengthPrefix: one length byte then the bytes (panics above 255: callers check). *)
Definition len_prefix (a : list N) : list N := N.of_nat (length a) :: a.
