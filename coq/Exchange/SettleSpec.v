(** The abstract specification of a settlement step (property C01): who pays and receives what.

    Nothing here is a model of code; it is the short statement that Proofs/SettleRefine.v,
    Proofs/SettleFills.v and Proofs/SettleHistory.v prove the keeper model (Exchange/Settle.v)
    to refine.  Every accepted settlement / fill has a list of parties; the balance of address
    [x] in denom [d] changes by exactly [spec_delta cfg parties x d].  No proofs in this file. *)
From Coq Require Import ZArith List Bool PArith.
From PV Require Import Exchange.Arith.
From PV Require Export Exchange.Settle.
Import ListNotations.
Open Scope Z_scope.

Definition sumz {A} (g : A -> Z) (l : list A) : Z := fold_right (fun x acc => g x + acc) 0 l.
Definition at_d (d d' : denom) (z : Z) : Z := if Pos.eqb d d' then z else 0.

(** One party: what it receives, what it hands over, the fees it pays. *)
Record party := { p_addr : addr; p_gets : coins; p_gives : coins; p_fees : coins }.

(** A filled order ([fo_order] = the filled order or the filled part of the split order, so
    [o_assets] are the assets filled; [fo_price] = price applied; [fo_fees] = fees paid):
    the seller hands over the assets filled and receives the price applied, the buyer receives
    the assets and hands over the price, each pays the fees reported for its order. *)
Definition party_of_fill (f : filled) : party :=
  let o := fo_order f in
  if o_ask o
  then {| p_addr := o_owner o; p_gets := [(o_pd o, fo_price f)]; p_gives := [(o_ad o, o_assets o)]; p_fees := fo_fees f |}
  else {| p_addr := o_owner o; p_gets := [(o_ad o, o_assets o)]; p_gives := [(o_pd o, fo_price f)]; p_fees := fo_fees f |}.

Definition party_delta (p : party) (x : addr) (d : denom) : Z :=
  if Pos.eqb x (p_addr p) then amount_of (p_gets p) d - amount_of (p_gives p) d - amount_of (p_fees p) d else 0.

Definition fees_total (ps : list party) (d : denom) : Z := sumz (fun p => amount_of (p_fees p) d) ps.

(** The exchange's share of the collected fees, per denom: [exchange_split] of the total, i.e.
    the ceiling of total * split / 10000 (Proofs/ArithProofs.v, [exchange_split_ceiling]). *)
Definition exchange_share (cfg : config) (ps : list party) (d : denom) : Z :=
  exchange_split (fees_total ps d) (get_split cfg d).

(** Change of the balance of address [x] in denom [d]: what [x] does as a party (an account on
    several orders or on both sides: the sum), plus all fees minus the exchange's share if [x]
    is the market account, plus the exchange's share if [x] is the fee collector. *)
Definition spec_delta (cfg : config) (ps : list party) (x : addr) (d : denom) : Z :=
  sumz (fun p => party_delta p x d) ps
  + (if Pos.eqb x (c_market cfg) then fees_total ps d - exchange_share cfg ps d else 0)
  + (if Pos.eqb x (c_feecol cfg) then exchange_share cfg ps d else 0).

(** Hold released for address [x]: the hold amounts of the filled (parts of the) orders. *)
Definition hold_released (fs : list filled) (x : addr) (d : denom) : Z :=
  sumz (fun f => if Pos.eqb x (o_owner (fo_order f)) then amount_of (hold_amount (fo_order f)) d else 0) fs.

(** The order store afterwards, as a lookup by id: fully filled orders are gone, the partially
    filled one is replaced by what is left of it, every other order is untouched. *)
Definition orders_after (os : list order) (full : list filled) (left : option order) (id : positive) : option order :=
  if existsb (Pos.eqb id) (map (fun f => o_id (fo_order f)) full) then None
  else match left with
       | Some l => if Pos.eqb id (o_id l) then Some l else find_order os id
       | None => find_order os id
       end.
