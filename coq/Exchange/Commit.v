(** C13 model, part 2: commitments and market ids, at the BYTE LEVEL of the store keys.

    Transcribed from /repo/x/exchange/keeper:
      keys.go         MakeKeyLastMarketID, MakeKeyKnownMarketID, GetKeyPrefixKnownMarketID,
                      MakeKeyMarketAcceptingCommitments, MakeKeyCommitment, GetKeyPrefixCommitments,
                      GetKeyPrefixCommitmentsToMarket, ParseKeyCommitment, ParseKeySuffixCommitment,
                      parseLengthPrefixedAddr, uint32FromBz
      market.go       getLastAutoMarketID, setLastAutoMarketID, nextMarketID, isMarketKnown,
                      setMarketKnown, IterateKnownMarketIDs, CreateMarket (id allocation, the
                      account check, setMarketKnown, setMarketAcceptingCommitments),
                      isMarketAcceptingCommitments, UpdateMarketAcceptingCommitments, CloseMarket
      commitments.go  getCommitmentAmount, setCommitmentAmount, addCommitmentAmount, addCommitment,
                      AddCommitment, addCommitmentsUnsafe, ReleaseCommitment(s),
                      ReleaseAllCommitmentsForMarket, SettleCommitments (store part)
      x/exchange/commitments.go  SimplifyAccountAmounts, SumAccountAmounts
      x/exchange/msgs.go  ValidateBasic of MsgCommitFunds, MsgMarketReleaseCommitments,
                      MsgMarketCommitmentSettle ([wf] checks of the operations)
      grpc_query.go   GetCommitment, GetAccountCommitments, GetMarketCommitments, GetAllCommitments,
                      GetAllMarkets
    These keys live in the same KV store as the order / payment keys of Exchange/Index.v but under
    other type bytes (0x01, 0x06, 0x07, 0x63 against 0x02-0x05, 0x08, 0x09, 0x10, 0x70), so the
    two parts are modelled as two stores side by side; [xstep] at the end runs them together.
    VALUES are structured: [CCoins c] stands for the coins string of a commitment, [CRaw b] for raw
    bytes (flags are the empty value, the last market id is 4 bytes).  sdk.Coins are strictly sorted
    association lists denom -> amount without zero entries; [cadd]/[csub] are Coins.Add/SafeSub.
    ASSUMED about externals: [cs_accts] is the set of market ids whose derived account address
    (GetMarketAddress = hash of "exchange/<id>") has an account in the auth module; the hash is
    assumed collision free on the ids in use.  NOT modelled (the harness keeps them satisfied):
    funds and holds (C02), permissions (C11), creation fees and required attributes (C20), the bank
    transfers of a commitment settlement, all other per-market entries under type byte 0x01.
    uint32 arithmetic is mod 2^32.  A failing operation returns the OLD state.  No proofs here. *)
From Coq Require Import ZArith NArith List Bool.
From PV Require Export Exchange.KV Exchange.Index Exchange.Paging.
Import ListNotations.
Open Scope N_scope.

(** ---- sdk.Coins ---- *)
Definition coins := list (bytes * Z).

Fixpoint cadd1 (d : bytes) (v : Z) (cs : coins) : coins :=
  match cs with
  | [] => [(d, v)]
  | (d', v') :: r =>
      match key_compare d d' with
      | Lt => (d, v) :: cs
      | Eq => (d', (v' + v)%Z) :: r
      | Gt => (d', v') :: cadd1 d v r
      end
  end.

Definition cadd_raw (a b : coins) : coins := fold_left (fun acc c => cadd1 (fst c) (snd c) acc) b a.
Definition ctrim (c : coins) : coins := filter (fun x => negb (Z.eqb (snd x) 0)) c.
(** Coins.Add *)
Definition cadd (a b : coins) : coins := ctrim (cadd_raw a b).
Definition cneg (b : coins) : coins := map (fun x => (fst x, Z.opp (snd x))) b.
(** Coins.SafeSub: [None] = some amount would be negative. *)
Definition csub (a b : coins) : option coins :=
  let d := ctrim (cadd_raw a (cneg b)) in
  if forallb (fun x => Z.ltb 0 (snd x)) d then Some d else None.
(** Coins.IsZero *)
Definition cis_zero (c : coins) : bool := forallb (fun x => Z.eqb (snd x) 0) c.

Fixpoint csorted (c : coins) : bool :=
  match c with
  | (d1, _) :: (((d2, _) :: _) as r) => key_ltb d1 d2 && csorted r
  | _ => true
  end.
(** Coins.Validate: strictly sorted by denom, positive amounts, valid denoms ([denom_ok]). *)
Definition cvalid (c : coins) : bool :=
  csorted c && forallb (fun x => Z.ltb 0 (snd x) && denom_ok (fst x)) c.

Fixpoint coins_eqb (a b : coins) : bool :=
  match a, b with
  | [], [] => true
  | (d, v) :: a', (d', v') :: b' => key_eqb d d' && Z.eqb v v' && coins_eqb a' b'
  | _, _ => false
  end.

(** ---- values, keys ---- *)
Inductive cval :=
| CCoins (c : coins)
| CRaw (b : bytes).

Definition cst := store cval.

Record cstate := { cs_kv : cst; cs_accts : list N }.

Definition k_last_mkt : key := [6].
Definition p_known : key := [7].
Definition k_known (m : N) : key := 7 :: u32be m.
Definition k_accepting (m : N) : key := 1 :: u32be m ++ [16].
Definition p_commit_all : key := [99].
Definition p_commit_mkt (m : N) : key := 99 :: u32be m.
Definition k_commit (m : N) (a : bytes) : key := p_commit_mkt m ++ len_prefix a.

(** uint32FromBz: at least 4 bytes, reads the first 4. *)
Definition u32_from_bz (b : bytes) : option N :=
  if Nat.leb 4 (length b) then Some (be_decode (firstn 4 b)) else None.

(** ---- market.go: market ids ---- *)
Definition last_market_id (kv : cst) : N :=
  match get kv k_last_mkt with
  | Some (CRaw b) => match u32_from_bz b with Some n => n | None => 0 end
  | _ => 0
  end.

(** The loop of nextMarketID.  [fuel] = number of store entries + 1 always suffices
    (CommitProofs.next_free_total); [None] = out of fuel. *)
Fixpoint next_free (fuel : nat) (kv : cst) (id : N) : option N :=
  match fuel with
  | O => None
  | S f => if has kv (k_known id) then next_free f kv ((id + 1) mod two32) else Some id
  end.

Definition next_market_id (kv : cst) : option (cst * N) :=
  match next_free (S (length kv)) kv ((last_market_id kv + 1) mod two32) with
  | Some id => Some (set kv k_last_mkt (CRaw (u32be id)), id)
  | None => None
  end.

Definition mem_id (x : N) (l : list N) : bool := existsb (N.eqb x) l.

(** CreateMarket ([id = 0]: next available).  Returns the new state and the market's id. *)
Definition create_market (s : cstate) (id : N) (accepting : bool) : option (cstate * N) :=
  if negb (id <? two32) then None else
  match (if id =? 0 then next_market_id (cs_kv s) else Some (cs_kv s, id)) with
  | None => None
  | Some (kv1, mid) =>
      if mem_id mid (cs_accts s) then None else
      let kv2 := set kv1 (k_known mid) (CRaw []) in
      let kv3 := if accepting then set kv2 (k_accepting mid) (CRaw []) else del kv2 (k_accepting mid) in
      Some ({| cs_kv := kv3; cs_accts := mid :: cs_accts s |}, mid)
  end.

(** UpdateMarketAcceptingCommitments (called by the governance authority: no fee precondition). *)
Definition mkt_ok (m : N) : bool := negb (m =? 0) && (m <? two32).

Definition set_accepting (kv : cst) (m : N) (b : bool) : option cst :=
  if negb (mkt_ok m) then None else
  if Bool.eqb (has kv (k_accepting m)) b then None else
  Some (if b then set kv (k_accepting m) (CRaw []) else del kv (k_accepting m)).

(** IterateKnownMarketIDs *)
Definition known_markets (kv : cst) : list N :=
  flat_map (fun e => match u32_from_bz (fst e) with Some m => [m] | None => [] end) (pstore kv p_known).

(** ---- commitments.go ---- *)
Definition get_commitment (kv : cst) (m : N) (a : bytes) : coins :=
  match get kv (k_commit m a) with
  | Some (CCoins c) => c
  | _ => []
  end.

(** setCommitmentAmount *)
Definition set_commitment (kv : cst) (m : N) (a : bytes) (c : coins) : cst :=
  if cis_zero c then del kv (k_commit m a) else set kv (k_commit m a) (CCoins c).

Definition add_commitment (kv : cst) (m : N) (a : bytes) (amt : coins) : cst :=
  set_commitment kv m a (cadd (get_commitment kv m a) amt).

(** MsgCommitFunds -> AddCommitment *)
Definition commit_funds (kv : cst) (m : N) (a : bytes) (amt : coins) : option cst :=
  if negb (mkt_ok m && addr_ok a && cvalid amt && negb (cis_zero amt)) then None else
  if negb (has kv (k_known m) && has kv (k_accepting m)) then None else
  Some (add_commitment kv m a amt).

(** ReleaseCommitment: a zero [amt] releases everything. *)
Definition release_one (m : N) (kv : cst) (e : bytes * coins) : option cst :=
  let '(a, amt) := e in
  let cur := get_commitment kv m a in
  if cis_zero cur then None else
  if cis_zero amt then Some (set_commitment kv m a [])
  else match csub cur amt with
       | Some d => Some (set_commitment kv m a d)
       | None => None
       end.

Fixpoint fold_opt {A T : Type} (f : T -> A -> option T) (l : list A) (s : T) : option T :=
  match l with
  | [] => Some s
  | x :: r => match f s x with Some s' => fold_opt f r s' | None => None end
  end.

Definition nonempty {A} (l : list A) : bool := match l with [] => false | _ => true end.

(** MsgMarketReleaseCommitments -> ReleaseCommitments (any failing entry fails the message). *)
Definition release_commitments (kv : cst) (m : N) (es : list (bytes * coins)) : option cst :=
  if negb (mkt_ok m && nonempty es && forallb (fun e => addr_ok (fst e) && cvalid (snd e)) es)
  then None else fold_opt (release_one m) es kv.

(** SimplifyAccountAmounts: one entry per account, first-occurrence order, amounts added. *)
Fixpoint simplify_add (a : bytes) (c : coins) (acc : list (bytes * coins)) : list (bytes * coins) :=
  match acc with
  | [] => [(a, cadd [] c)]
  | (a', c') :: r => if bytes_eqb a a' then (a', cadd c' c) :: r else (a', c') :: simplify_add a c r
  end.
Definition simplify (es : list (bytes * coins)) : list (bytes * coins) :=
  fold_left (fun acc e => simplify_add (fst e) (snd e) acc) es [].
(** SumAccountAmounts *)
Definition csum (es : list (bytes * coins)) : coins := fold_left (fun acc e => cadd acc (snd e)) es [].

Definition entry_ok (e : bytes * coins) : bool :=
  addr_ok (fst e) && cvalid (snd e) && negb (cis_zero (snd e)).

(** MsgMarketCommitmentSettle -> SettleCommitments (store part): release inputs and fees, (bank
    transfers), commit the outputs again without the market checks. *)
Definition settle_commitments (kv : cst) (m : N) (ins outs fees : list (bytes * coins)) : option cst :=
  if negb (mkt_ok m && nonempty ins && nonempty outs && forallb entry_ok ins && forallb entry_ok outs
           && forallb entry_ok fees && coins_eqb (csum ins) (csum outs))
  then None else
  match fold_opt (release_one m) (simplify (simplify ins ++ simplify fees)) kv with
  | None => None
  | Some kv1 =>
      Some (fold_left (fun kv' e => add_commitment kv' m (fst e) (snd e)) (simplify outs) kv1)
  end.

(** CloseMarket (commitments part): commitments are no longer accepted; every commitment of the
    market is released (a failing release is only logged). *)
Definition close_commitments (kv : cst) (m : N) : cst :=
  let kv0 := del kv (k_accepting m) in
  fold_left (fun kv' e =>
               match parse_len_prefixed (fst e) with
               | Some (a, []) => match release_one m kv' (a, []) with Some kv'' => kv'' | None => kv' end
               | _ => kv'
               end) (pstore kv0 (p_commit_mkt m)) kv0.

(** ---- the stateful core ---- *)
Inductive cop :=
| CMarketCreate (id : N) (accepting : bool)
| CAcctCreate (id : N)                   (* an account appears at the address of market [id] (bank send) *)
| CSetAccepting (m : N) (b : bool)
| CCommit (m : N) (a : bytes) (amt : coins)
| CRelease (m : N) (es : list (bytes * coins))
| CSettle (m : N) (ins outs fees : list (bytes * coins))
| CClose (m : N).

Definition cinit : cstate := {| cs_kv := []; cs_accts := [] |}.

Definition with_kv (s : cstate) (kv : cst) : cstate := {| cs_kv := kv; cs_accts := cs_accts s |}.

Definition cstep (s : cstate) (o : cop) : cstate * bool :=
  let lift (r : option cst) := match r with Some kv => (with_kv s kv, true) | None => (s, false) end in
  match o with
  | CMarketCreate id acc => match create_market s id acc with Some (s', _) => (s', true) | None => (s, false) end
  | CAcctCreate id =>
      if negb (id <? two32) then (s, false)
      else ({| cs_kv := cs_kv s; cs_accts := if mem_id id (cs_accts s) then cs_accts s else id :: cs_accts s |}, true)
  | CSetAccepting m b => lift (set_accepting (cs_kv s) m b)
  | CCommit m a amt => lift (commit_funds (cs_kv s) m a amt)
  | CRelease m es => lift (release_commitments (cs_kv s) m es)
  | CSettle m ins outs fees => lift (settle_commitments (cs_kv s) m ins outs fees)
  | CClose m => (with_kv s (close_commitments (cs_kv s) m), true)
  end.

Definition crun_from (s : cstate) (ops : list cop) : cstate := fold_left (fun s' o => fst (cstep s' o)) ops s.
Definition crun (ops : list cop) : cstate := crun_from cinit ops.

(** The market ids handed out by the successful creations of a history, in order. *)
Fixpoint markets_created_from (s : cstate) (ops : list cop) : list N :=
  match ops with
  | [] => []
  | o :: r =>
      (match o with
       | CMarketCreate id acc => match create_market s id acc with Some (_, mid) => [mid] | None => [] end
       | _ => []
       end) ++ markets_created_from (fst (cstep s o)) r
  end.

(** ---- unpaged listings (grpc_query.go) ---- *)

(** parseCommitmentKeyValue on an entry of the per-market prefix store: the key suffix must be a
    length-prefixed address with nothing left, the value a coins string; zero amounts are skipped. *)
Definition commitment_of_entry (e : key * cval) : list (bytes * coins) :=
  match parse_len_prefixed (fst e), snd e with
  | Some (a, []), CCoins c => if cis_zero c then [] else [(a, c)]
  | _, _ => []
  end.

(** GetMarketCommitments *)
Definition market_commitments (kv : cst) (m : N) : list (bytes * coins) :=
  flat_map commitment_of_entry (pstore kv (p_commit_mkt m)).

(** ... on an entry of the all-commitments prefix store: 4 bytes of market id first. *)
Definition commitment_of_entry_all (e : key * cval) : list (N * bytes * coins) :=
  if Nat.ltb (length (fst e)) 6 then [] else
  map (fun x => (be_decode (firstn 4 (fst e)), fst x, snd x))
      (commitment_of_entry (skipn 4 (fst e), snd e)).

(** GetAllCommitments *)
Definition all_commitments (kv : cst) : list (N * bytes * coins) :=
  flat_map commitment_of_entry_all (pstore kv p_commit_all).

(** GetAccountCommitments: every known market is looked up. *)
Definition account_commitments (kv : cst) (a : bytes) : list (N * coins) :=
  flat_map (fun m => let c := get_commitment kv m a in if cis_zero c then [] else [(m, c)])
           (known_markets kv).

(** ---- paged listings: query.Paginate over the prefix stores ---- *)
Definition page_of_market_commitments (kv : cst) (m : N) (rq : page_req)
  : option (list (bytes * coins) * page_resp) :=
  match sdk_paginate (pstore kv (p_commit_mkt m)) rq with
  | Some (acc, resp) => Some (flat_map commitment_of_entry acc, resp)
  | None => None
  end.

Definition page_of_all_commitments (kv : cst) (rq : page_req)
  : option (list (N * bytes * coins) * page_resp) :=
  match sdk_paginate (pstore kv p_commit_all) rq with
  | Some (acc, resp) => Some (flat_map commitment_of_entry_all acc, resp)
  | None => None
  end.

(** GetAllMarkets: query.FilteredPaginate over the known-market-id prefix store; an entry is a hit
    when ParseKeySuffixKnownMarketID reads an id from its key (at least 4 bytes); an accumulated
    hit is listed through GetMarketBrief, which needs the market's account -- every known market
    has one (CreateMarket makes it; C13_market_ids), so each accumulated hit yields one item. *)
Definition markets_hit (k : key) (v : cval) : bool := Nat.leb 4 (length k).

Definition page_of_all_markets (kv : cst) (rq : page_req) : option (list N * page_resp) :=
  match sdk_filtered_paginate markets_hit (pstore kv p_known) rq with
  | Some (acc, resp) =>
      Some (flat_map (fun e => match u32_from_bz (fst e) with Some m => [m] | None => [] end) acc, resp)
  | None => None
  end.

(** ---- both parts together: one history over orders, payments, commitments and markets ---- *)
Inductive xop :=
| XO (o : op)
| XC (c : cop).

Definition xstate := (st * cstate)%type.
Definition xinit : xstate := (init, cinit).

(** MsgGovCloseMarket acts on both parts. *)
Definition xstep (s : xstate) (x : xop) : xstate * bool :=
  match x with
  | XO o =>
      let '(s1, ok) := step (fst s) o in
      let c1 := match o with OCloseMarket m => fst (cstep (snd s) (CClose m)) | _ => snd s end in
      ((s1, c1), ok)
  | XC c => let '(c1, ok) := cstep (snd s) c in ((fst s, c1), ok)
  end.

Definition xrun_from (s : xstate) (xs : list xop) : xstate := fold_left (fun s' x => fst (xstep s' x)) xs s.
Definition xrun (xs : list xop) : xstate := xrun_from xinit xs.

(** Projections of a joint history onto the two parts. *)
Definition proj_o (x : xop) : list op := match x with XO o => [o] | XC _ => [] end.
Definition proj_c (x : xop) : list cop :=
  match x with
  | XO (OCloseMarket m) => [CClose m]
  | XO _ => []
  | XC c => [c]
  end.

(** A small concrete history (non-vacuity): two markets by auto id, an explicit id 5, a foreign
    account squatting id 3 (so the next auto id is refused), commitments of two accounts in two
    denoms, a partial release, a settlement moving funds between accounts, market 2 closed. *)
Definition aaa : bytes := [97;97;97].
Definition bbb : bytes := [98;98;98].
Definition example_chistory : list cop :=
  [ CMarketCreate 0 true; CMarketCreate 0 true; CMarketCreate 5 true; CAcctCreate 3;
    CMarketCreate 0 true; CMarketCreate 5 true;
    CCommit 1 [1;1;1] [(aaa, 10%Z); (bbb, 4%Z)];
    CCommit 1 [2;2;2] [(bbb, 7%Z)];
    CCommit 2 [1;1;1] [(aaa, 3%Z)];
    CCommit 5 [1;1;1] [(aaa, 1%Z)];
    CRelease 1 [([1;1;1], [(aaa, 4%Z)])];
    CSettle 1 [([1;1;1], [(bbb, 4%Z)])] [([2;2;2], [(bbb, 4%Z)])] [([1;1;1], [(aaa, 1%Z)])];
    CClose 2 ].
