(** Governance-only endpoints of every module (property C11, second half).

    The table [gen_gov_endpoints] (Gen/GenGovEndpoints.v, regenerated from the Go source on every
    run) lists every handler method under x/<module>/ whose request type has an [Authority string]
    field, with the comparison that guards it.  This file holds the hand-written side: which of
    those endpoints are documented as NOT governance-only, what a governance-only row must look
    like, and which bodies of the keepers' GetAuthority / IsAuthority / ValidateAuthority are
    accepted as "compares with the keeper's configured authority".

    Documentation used for the exceptions (proto/provenance/<module>/v1/tx.proto field comments and
    the modules' spec/ folders):
      marker  MsgUpdateSendDenyListRequest.authority  "Must have admin authority to marker or be
              governance module account address"  -> authority, or ACCESS_TRANSFER on the marker
      name    MsgModifyNameRequest.authority  "The address signing the message" -> authority, or
              the address the name is bound to
      trigger MsgDestroyTriggerRequest.authority  "The signing authority for the request" -> the
              trigger's owner
      oracle  MsgSendQueryOracleRequest.authority  "The signing authority for the request" -> any
              signer (the endpoint is open) *)
From Coq Require Import List String Bool.
From PV Require Export Exchange.PermTypes.
From PV Require Import Gen.GenGovEndpoints.
Import ListNotations.
Open Scope string_scope.

Definition gov_guard_eqb (a b : gov_guard) : bool :=
  match a, b with
  | GvAuthority x, GvAuthority y => x =? y
  | GvAuthorityOr x, GvAuthorityOr y => x =? y
  | GvOther x, GvOther y => x =? y
  | GvReject, GvReject => true
  | GvNone x, GvNone y => x =? y
  | GvUnrecognised x, GvUnrecognised y => x =? y
  | _, _ => false
  end.

(** (module, endpoint, documented guard) of the endpoints that carry an Authority field but are
    documented as usable by someone other than the governance authority. *)
Definition documented_not_gov_only : list (string * string * gov_guard) := [
  ("marker", "UpdateSendDenyList", GvAuthorityOr "k.GetMarkerByDenom(ctx, msg.Denom).ValidateHasAccess(msg.Authority, types.Access_Transfer)");
  ("name", "ModifyName", GvAuthorityOr "k.Keeper.GetRecordByName(ctx, msg.Record.Name).Address");
  ("oracle", "SendQueryOracle", GvNone "QueryOracle");
  ("trigger", "DestroyTrigger", GvOther "k.GetTrigger(ctx, msg.Id).GetOwner()")
].

Definition exception_of (r : gov_row) : option gov_guard :=
  match find (fun d => (fst (fst d) =? gv_module r) && (snd (fst d) =? gv_endpoint r)) documented_not_gov_only with
  | Some d => Some (snd d)
  | None => None
  end.

Definition is_gov_only_guard (g : gov_guard) : bool :=
  match g with
  | GvAuthority _ | GvReject => true
  | _ => false
  end.

Definition no_precalls (r : gov_row) : bool :=
  match gv_precalls r with [] => true | _ => false end.

(** Accepted bodies (alpha-normalised by the translator: receiver k, parameters #i, error values
    $error). *)
Definition accepted_authority_bodies : list (string * list string) := [
  ("GetAuthority", ["return k.authority"]);
  ("IsAuthority", ["return strings.EqualFold(k.authority, #0)"]);
  ("ValidateAuthority", ["if !k.IsAuthority(#0) { return $error }"; "return nil"]);
  ("ValidateAuthority", ["if k.authority != #0 { return $error }"; "return nil"])
].

Fixpoint strs_eqb (a b : list string) : bool :=
  match a, b with
  | [], [] => true
  | x :: a', y :: b' => (x =? y) && strs_eqb a' b'
  | _, _ => false
  end.

(** "module.Func" -> "Func" *)
Definition after_dot (s : string) : string :=
  match index 0 "." s with
  | Some n => substring (S n) (length s - S n) s
  | None => s
  end.

Definition authority_func_ok (f : func_shape) : bool :=
  existsb (fun a => (fst a =? after_dot (fs_name f)) && strs_eqb (snd a) (fs_stmts f)) accepted_authority_bodies.

Definition has_authority_func (name : string) : bool :=
  existsb (fun f => (fs_name f =? name) && authority_func_ok f) gen_authority_funcs.

(** The function a guard goes through must exist in that module with an accepted body (and what
    ValidateAuthority calls in turn). *)
Definition via_ok (module via : string) : bool :=
  if via =? "ValidateAuthority" then
    has_authority_func (module ++ ".ValidateAuthority")
    && forallb authority_func_ok (filter (fun f => (fs_name f =? module ++ ".IsAuthority") || (fs_name f =? module ++ ".GetAuthority")) gen_authority_funcs)
  else if via =? "GetAuthority" then has_authority_func (module ++ ".GetAuthority")
  else via =? "authority".

Definition gov_row_ok (r : gov_row) : bool :=
  match exception_of r with
  | Some g =>
      gov_guard_eqb (gv_guard r) g &&
      match g with
      | GvNone _ => true
      | _ => negb (gv_pre_write r)
      end
  | None =>
      is_gov_only_guard (gv_guard r) && no_precalls r &&
      match gv_guard r with
      | GvAuthority via => via_ok (gv_module r) via
      | _ => true
      end
  end.

Definition gov_table_ok : bool :=
  forallb gov_row_ok gen_gov_endpoints && forallb authority_func_ok gen_authority_funcs.

(** Request type names (module, request) that are governance-only according to the tables — used
    by the correspondence check to decide what the sweep over the registered messages expects. *)
Definition gov_only_request (module request : string) : bool :=
  existsb (fun r => (gv_module r =? module) && (gv_request r =? request)
                    && match exception_of r with None => true | Some _ => false end) gen_gov_endpoints.

Definition known_request (module request : string) : bool :=
  existsb (fun r => (gv_module r =? module) && (gv_request r =? request)) gen_gov_endpoints.
