(** The declarative side of property C20: what "eligible and sufficiently paid" means, written
    without the Go control flow (no loop flags, no byte-suffix test) as executable boolean
    checkers.  Proofs/C20Proofs.v shows that the transcription of the Go code (FeeCheck.v,
    ReqAttr.v) decides exactly these; Corr/C20.v evaluates them on what the real code answered.
    No proofs in this file. *)
From Coq Require Import ZArith List Bool String Ascii.
From PV Require Import Exchange.Arith Exchange.ReqAttr Exchange.FeeCheck.
Import ListNotations.
Open Scope Z_scope.

(** ** Fees *)

(** A flat requirement is met: there are no options, or the coin offered is in the denom of an
    option and at least that option's amount. *)
Definition flat_fee_spec (opts : list coin) (fee : option coin) : bool :=
  match opts with
  | [] => true
  | _ => match fee with
         | None => false
         | Some c => existsb (fun o => String.eqb (denom_of o) (denom_of c) && (amt_of o <=? amt_of c)) opts
         end
  end.

(** The ratio charge: ceiling of price * fee / ratio-price (ratio price amount positive). *)
Definition ceil_div (a b : Z) : Z := (a + b - 1) / b.
Definition ratio_charge (r : ratio) (pa : Z) : option Z :=
  if 0 <? r_pa r then Some (ceil_div (pa * r_fa r) (r_pa r)) else None.

(** The flat option / ratio charge that a fee coin covers on its own. *)
Definition covers_flat (flats : list coin) (c : coin) : option Z :=
  match get_flat flats (denom_of c) with
  | Some f => if f <=? amt_of c then Some f else None
  | None => None
  end.
Definition covers_ratio (rs : list ratio) (price : coin) (c : coin) : option Z :=
  match get_ratio rs (denom_of price) (denom_of c) with
  | Some r => match ratio_charge r (amt_of price) with
              | Some x => if x <=? amt_of c then Some x else None
              | None => None
              end
  | None => None
  end.
Definition covers_both (flats : list coin) (rs : list ratio) (price : coin) (c : coin) : bool :=
  match covers_flat flats c, covers_ratio rs price c with
  | Some f, Some x => f + x <=? amt_of c
  | _, _ => false
  end.

(** Two different coins of the offer, one covering a flat option, the other a ratio charge. *)
Fixpoint two_coins (F R : coin -> bool) (fee : list coin) : bool :=
  match fee with
  | [] => false
  | c :: r => (F c && existsb R r) || (R c && existsb F r) || two_coins F R r
  end.

Definition buyer_fee_spec (flats : list coin) (rs : list ratio) (price : coin) (fee : list coin) : bool :=
  let F c := is_some (covers_flat flats c) in
  let R c := is_some (covers_ratio rs price c) in
  match flats, rs with
  | [], [] => true
  | _ :: _, [] => existsb F fee
  | [], _ :: _ => existsb R fee
  | _ :: _, _ :: _ => existsb (covers_both flats rs price) fee || two_coins F R fee
  end.

(** An ask price covers the seller fees that are taken out of it: the ratio for the price denom is
    there when the market has seller ratios at all, and the price exceeds the flat fee (when paid
    in the price denom) plus the ratio charge.  With nothing to take out there is no condition. *)
Definition ask_price_spec (rs : list ratio) (price : coin) (flat : option coin) : bool :=
  let pd := denom_of price in
  let pa := amt_of price in
  let from_flat := match flat with
                   | Some c => if String.eqb (denom_of c) pd then amt_of c else 0
                   | None => 0
                   end in
  match get_ratio rs pd pd with
  | Some r => match ratio_charge r pa with
              | Some x => from_flat + x <? pa
              | None => false
              end
  | None => match rs with
            | [] => (from_flat =? 0) || (from_flat <? pa)
            | _ => false
            end
  end.

(** ** Attributes, by name levels *)

Fixpoint list_bytes_eqb (a b : list bytes) : bool :=
  match a, b with
  | [], [] => true
  | x :: a', y :: b' => bytes_eqb x y && list_bytes_eqb a' b'
  | _, _ => false
  end.

(** [req] is a normalised required attribute, [acc] an account attribute name.  A requirement
    whose first level is "*" (followed by a base of one or more levels) is met by a name that
    consists of one or more extra levels followed by exactly the base's levels; any other
    requirement is met by the identical name only. *)
Definition levels_match (req acc : bytes) : bool :=
  nonempty req && nonempty acc &&
  match split_dot req with
  | w :: (_ :: _) as base =>
      if bytes_eqb w [star] then
        let al := split_dot acc in
        let extra := (List.length al - List.length base)%nat in
        Nat.ltb 0 extra && list_bytes_eqb (skipn extra al) base
      else bytes_eqb req acc
  | _ => bytes_eqb req acc
  end.

(** Every attribute the market was created with (as given, any case / surrounding blanks) is
    carried by the account. *)
Definition attrs_spec (raw_reqs : list string) (accs : list bytes) : bool :=
  forallb (fun r => existsb (levels_match (normalize_name (bytes_of r))) accs) raw_reqs.

(** ** Admission *)
(** What the checks made after ValidateBasic demand.  For the two fill requests [ok] says that the
    orders named in the request exist in this market, are of the other kind, belong to someone
    else and add up to the stated total. *)
Definition admit_spec (created : bool) (m : market) (accs : list bytes) (a : action) : bool :=
  created &&
  match a with
  | ACreateAsk price sflat cfee =>
      m_accepting_orders m && attrs_spec (m_req_ask m) accs
      && flat_fee_spec (m_create_ask m) cfee && flat_fee_spec (m_seller_flat m) sflat
      && ask_price_spec (m_seller_ratios m) price sflat
  | ACreateBid price sfees cfee =>
      m_accepting_orders m && attrs_spec (m_req_bid m) accs
      && flat_fee_spec (m_create_bid m) cfee
      && buyer_fee_spec (m_buyer_flat m) (m_buyer_ratios m) price sfees
  | ACommit cfee =>
      m_accepting_commitments m && attrs_spec (m_req_com m) accs
      && flat_fee_spec (m_create_com m) cfee
  | AFillBids ok prices sflat cfee =>
      m_accepting_orders m && m_user_settle m && attrs_spec (m_req_ask m) accs
      && flat_fee_spec (m_create_ask m) cfee && flat_fee_spec (m_seller_flat m) sflat
      && ok
      && forallb (fun p => is_some (seller_ratio (m_seller_ratios m) (denom_of p))) prices
  | AFillAsks ok tprice sfees cfee =>
      m_accepting_orders m && m_user_settle m && attrs_spec (m_req_bid m) accs
      && flat_fee_spec (m_create_bid m) cfee
      && buyer_fee_spec (m_buyer_flat m) (m_buyer_ratios m) tprice sfees
      && ok
      && is_some (seller_ratio (m_seller_ratios m) (denom_of tprice))
  end.

(** A well-formed request: the price is positive; a set of fee coins holds positive amounts in
    strictly ascending denoms (so no denom twice); a single optional fee coin is not negative,
    and not zero where the message forbids that (seller settlement flat fee; the creation fee of
    the two fill requests). *)
Fixpoint strictly_ascending (l : list string) : bool :=
  match l with
  | a :: (b :: _) as r => String.ltb a b && strictly_ascending r
  | _ => true
  end.
Definition coins_wf (l : list coin) : bool :=
  forallb coin_pos l && strictly_ascending (map denom_of l).

Definition request_wf (a : action) : bool :=
  match a with
  | ACreateAsk price sflat cfee => coin_pos price && opt_ok coin_pos sflat && opt_ok coin_nonneg cfee
  | ACreateBid price sfees cfee => coin_pos price && coins_wf sfees && opt_ok coin_nonneg cfee
  | ACommit cfee => opt_ok coin_nonneg cfee
  | AFillBids _ _ sflat cfee => opt_ok coin_pos sflat && opt_ok coin_pos cfee
  | AFillAsks _ tprice sfees cfee => coin_pos tprice && coins_wf sfees && opt_ok coin_pos cfee
  end.

(** What a message handler must decide. *)
Definition admit_spec_msg (created : bool) (m : market) (accs : list bytes) (a : action) : bool :=
  request_wf a && admit_spec created m accs a.

(** ** Configuration changes, on the configuration as the market's operators wrote it *)

(** A change of a required-attribute list: entries are compared in normalised form; every entry to
    remove must currently be required, no entry to add may currently be required; the result is
    the current entries that are not removed followed by the additions.  [None] = refused. *)
Definition cfg_update_reqs (cur rem add : list string) : option (list string) :=
  let n s := normalize_name (bytes_of s) in
  let ncur := map n cur in
  let nrem := map n rem in
  let nadd := map n add in
  if existsb (fun a => negb (mem_bytes a ncur)) nrem || existsb (fun a => mem_bytes a ncur) nadd
  then None
  else Some (filter (fun r => negb (mem_bytes (n r) nrem)) cur ++ add).

Definition with_reqs (m : market) (ra rb rc : list string) : market :=
  {| m_create_ask := m_create_ask m; m_create_bid := m_create_bid m; m_create_com := m_create_com m;
     m_seller_flat := m_seller_flat m; m_seller_ratios := m_seller_ratios m;
     m_buyer_flat := m_buyer_flat m; m_buyer_ratios := m_buyer_ratios m;
     m_accepting_orders := m_accepting_orders m; m_user_settle := m_user_settle m;
     m_accepting_commitments := m_accepting_commitments m;
     m_req_ask := ra; m_req_bid := rb; m_req_com := rc;
     m_bips := m_bips m; m_interm := m_interm m |}.

(** A well-formed MsgMarketManageReqAttrs of an authorised admin is applied when all three list
    changes are possible, otherwise it changes nothing. *)
Definition cfg_manage_req_attrs (m : market) (a : attr_msg) : option market :=
  if attr_msg_valid a && am_auth a then
    match cfg_update_reqs (m_req_ask m) (am_ask_rem a) (am_ask_add a),
          cfg_update_reqs (m_req_bid m) (am_bid_rem a) (am_bid_add a),
          cfg_update_reqs (m_req_com m) (am_com_rem a) (am_com_add a) with
    | Some ra, Some rb, Some rc => Some (with_reqs m ra rb rc)
    | _, _, _ => None
    end
  else None.

(** Fee changes act on the tables of the configuration directly ([manage_fees]: per denom /
    denom pair, removals first, then the additions replace or extend). *)
Definition step_cfg (m : market) (o : cfg_op) : market :=
  match o with
  | UFlags ao us ac => set_flags m ao us ac
  | UFees f => manage_fees m f
  | UAttrs a => match cfg_manage_req_attrs m a with Some m' => m' | None => m end
  end.

(** ** What a fee quote promises *)
(** [pick l o]: [o] is one of the quoted options, or nothing when nothing is quoted. *)
Definition pickb (l : list coin) (o : option coin) : bool :=
  match l, o with
  | [], None => true
  | _ :: _, Some c => existsb (coin_eqb c) l
  | _, _ => false
  end.

(** The fee [fee] offers at least [need] in every denom of [need]. *)
Definition covers_coins (fee need : list coin) : bool :=
  forallb (fun n => existsb (fun c => String.eqb (denom_of c) (denom_of n) && (amt_of n <=? amt_of c)) fee) need.

(** The part of admission that is not about the fees offered: the market exists, takes that kind
    of request, and the account carries the required attributes (and, for fills, the orders named
    exist and the market has a seller ratio for every price denom involved, or none at all). *)
Definition eligible_spec (created : bool) (m : market) (accs : list bytes) (a : action) : bool :=
  created &&
  match a with
  | ACreateAsk _ _ _ => m_accepting_orders m && attrs_spec (m_req_ask m) accs
  | ACreateBid _ _ _ => m_accepting_orders m && attrs_spec (m_req_bid m) accs
  | ACommit _ => m_accepting_commitments m && attrs_spec (m_req_com m) accs
  | AFillBids ok prices _ _ =>
      m_accepting_orders m && m_user_settle m && attrs_spec (m_req_ask m) accs && ok
      && forallb (fun p => is_some (seller_ratio (m_seller_ratios m) (denom_of p))) prices
  | AFillAsks ok tprice _ _ =>
      m_accepting_orders m && m_user_settle m && attrs_spec (m_req_bid m) accs && ok
      && is_some (seller_ratio (m_seller_ratios m) (denom_of tprice))
  end.

(** ** What OrderFeeCalc must answer, from the configuration alone
    The creation and flat options are the market's tables; the ratio options are the ceiling
    charges ([ceil_div], no Go rounding code involved) of the ratios for the price denom: for an
    ask the seller ratio of the price denom, for a bid every buyer ratio with that price denom.
    The query must fail when the market has ratios of that side but none for the price denom. *)
Definition quote_ask_spec (created : bool) (m : market) (price : coin) : option quote :=
  if created then
    match get_ratio (m_seller_ratios m) (denom_of price) (denom_of price), m_seller_ratios m with
    | Some r, _ => Some (m_create_ask m, m_seller_flat m, [(r_fd r, ceil_div (amt_of price * r_fa r) (r_pa r))])
    | None, [] => Some (m_create_ask m, m_seller_flat m, [])
    | None, _ :: _ => None
    end
  else None.

Definition quote_bid_spec (created : bool) (m : market) (price : coin) : option quote :=
  if created then
    match m_buyer_ratios m, filter (fun r => String.eqb (r_pd r) (denom_of price)) (m_buyer_ratios m) with
    | [], _ => Some (m_create_bid m, m_buyer_flat m, [])
    | _ :: _, [] => None
    | _ :: _, l => Some (m_create_bid m, m_buyer_flat m,
                         map (fun r => (r_fd r, ceil_div (amt_of price * r_fa r) (r_pa r))) l)
    end
  else None.
