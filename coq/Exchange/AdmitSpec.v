(** The declarative side of property C20: what "eligible and sufficiently paid" means, written
    without the Go control flow (no loop flags, no byte-suffix test) as executable boolean
    checkers.  Proofs/C20Proofs.v shows that the transcription of the Go code (FeeCheck.v,
    ReqAttr.v) decides exactly these; Corr/C20.v evaluates them on what the real code answered.
    No proofs in this file. *)
From Coq Require Import ZArith List Bool String Ascii.
From PV Require Import Exchange.Arith Exchange.ReqAttr Exchange.FeeCheck.
Import ListNotations.
Open Scope Z_scope.

(** ** Fees *)

(** A flat requirement is met: there are no options, or the coin offered is in the denom of an
    option and at least that option's amount. *)
Definition flat_fee_spec (opts : list coin) (fee : option coin) : bool :=
  match opts with
  | [] => true
  | _ => match fee with
         | None => false
         | Some c => existsb (fun o => String.eqb (denom_of o) (denom_of c) && (amt_of o <=? amt_of c)) opts
         end
  end.

(** The ratio charge: ceiling of price * fee / ratio-price (ratio price amount positive). *)
Definition ceil_div (a b : Z) : Z := (a + b - 1) / b.
Definition ratio_charge (r : ratio) (pa : Z) : option Z :=
  if 0 <? r_pa r then Some (ceil_div (pa * r_fa r) (r_pa r)) else None.

(** The flat option / ratio charge that a fee coin covers on its own. *)
Definition covers_flat (flats : list coin) (c : coin) : option Z :=
  match get_flat flats (denom_of c) with
  | Some f => if f <=? amt_of c then Some f else None
  | None => None
  end.
Definition covers_ratio (rs : list ratio) (price : coin) (c : coin) : option Z :=
  match get_ratio rs (denom_of price) (denom_of c) with
  | Some r => match ratio_charge r (amt_of price) with
              | Some x => if x <=? amt_of c then Some x else None
              | None => None
              end
  | None => None
  end.
Definition covers_both (flats : list coin) (rs : list ratio) (price : coin) (c : coin) : bool :=
  match covers_flat flats c, covers_ratio rs price c with
  | Some f, Some x => f + x <=? amt_of c
  | _, _ => false
  end.

(** Two different coins of the offer, one covering a flat option, the other a ratio charge. *)
Fixpoint two_coins (F R : coin -> bool) (fee : list coin) : bool :=
  match fee with
  | [] => false
  | c :: r => (F c && existsb R r) || (R c && existsb F r) || two_coins F R r
  end.

Definition buyer_fee_spec (flats : list coin) (rs : list ratio) (price : coin) (fee : list coin) : bool :=
  let F c := is_some (covers_flat flats c) in
  let R c := is_some (covers_ratio rs price c) in
  match flats, rs with
  | [], [] => true
  | _ :: _, [] => existsb F fee
  | [], _ :: _ => existsb R fee
  | _ :: _, _ :: _ => existsb (covers_both flats rs price) fee || two_coins F R fee
  end.

(** An ask price covers the seller fees that are taken out of it: the ratio for the price denom is
    there when the market has seller ratios at all, and the price exceeds the flat fee (when paid
    in the price denom) plus the ratio charge.  With nothing to take out there is no condition. *)
Definition ask_price_spec (rs : list ratio) (price : coin) (flat : option coin) : bool :=
  let pd := denom_of price in
  let pa := amt_of price in
  let from_flat := match flat with
                   | Some c => if String.eqb (denom_of c) pd then amt_of c else 0
                   | None => 0
                   end in
  match get_ratio rs pd pd with
  | Some r => match ratio_charge r pa with
              | Some x => from_flat + x <? pa
              | None => false
              end
  | None => match rs with
            | [] => (from_flat =? 0) || (from_flat <? pa)
            | _ => false
            end
  end.

(** ** Attributes, by name levels *)

Fixpoint list_bytes_eqb (a b : list bytes) : bool :=
  match a, b with
  | [], [] => true
  | x :: a', y :: b' => bytes_eqb x y && list_bytes_eqb a' b'
  | _, _ => false
  end.

(** [req] is a normalised required attribute, [acc] an account attribute name.  A requirement
    whose first level is "*" (followed by a base of one or more levels) is met by a name that
    consists of one or more extra levels followed by exactly the base's levels; any other
    requirement is met by the identical name only. *)
Definition levels_match (req acc : bytes) : bool :=
  nonempty req && nonempty acc &&
  match split_dot req with
  | w :: (_ :: _) as base =>
      if bytes_eqb w [star] then
        let al := split_dot acc in
        let extra := (List.length al - List.length base)%nat in
        Nat.ltb 0 extra && list_bytes_eqb (skipn extra al) base
      else bytes_eqb req acc
  | _ => bytes_eqb req acc
  end.

(** Every attribute the market was created with (as given, any case / surrounding blanks) is
    carried by the account. *)
Definition attrs_spec (raw_reqs : list string) (accs : list bytes) : bool :=
  forallb (fun r => existsb (levels_match (normalize_name (bytes_of r))) accs) raw_reqs.

(** ** Admission *)
Definition admit_spec (created : bool) (m : market) (accs : list bytes) (a : action) : bool :=
  created &&
  match a with
  | ACreateAsk price sflat cfee =>
      m_accepting_orders m && attrs_spec (m_req_ask m) accs
      && flat_fee_spec (m_create_ask m) cfee && flat_fee_spec (m_seller_flat m) sflat
      && ask_price_spec (m_seller_ratios m) price sflat
  | ACreateBid price sfees cfee =>
      m_accepting_orders m && attrs_spec (m_req_bid m) accs
      && flat_fee_spec (m_create_bid m) cfee
      && buyer_fee_spec (m_buyer_flat m) (m_buyer_ratios m) price sfees
  | ACommit cfee =>
      m_accepting_commitments m && attrs_spec (m_req_com m) accs
      && flat_fee_spec (m_create_com m) cfee
  | AFillBids bprice sflat cfee =>
      m_accepting_orders m && m_user_settle m && attrs_spec (m_req_ask m) accs
      && flat_fee_spec (m_create_ask m) cfee && flat_fee_spec (m_seller_flat m) sflat
      && is_some (seller_ratio (m_seller_ratios m) (denom_of bprice))
  | AFillAsks tprice sfees cfee =>
      m_accepting_orders m && m_user_settle m && attrs_spec (m_req_bid m) accs
      && flat_fee_spec (m_create_bid m) cfee
      && buyer_fee_spec (m_buyer_flat m) (m_buyer_ratios m) tprice sfees
      && is_some (seller_ratio (m_seller_ratios m) (denom_of tprice))
  end.
