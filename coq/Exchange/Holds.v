(** Model of the exchange module's use of the hold module (property C02): which funds are put
    on hold / released by orders, commitments and payments, over the real hold and bank rules.

    Go sources transcribed (function by function):
      x/hold/keeper/keeper.go          ValidateNewHold, AddHold, ReleaseHold            -> [add_hold], [release_hold]
      x/exchange/orders.go             AskOrder/BidOrder.GetHoldAmount, Order.Split     -> [order_hold], [split_order]
                                       ValidateOrderIDs / findDuplicateIDs (no id twice) -> [nodupb] in [settle]
      x/exchange/keeper/orders.go      CreateAskOrder/CreateBidOrder (fee, store, hold), CancelOrder (owner or
                                       cancel permission), CancelAllOrdersForMarket, SetOrderExternalID
                                                                                         -> [create_order], [cancel_order_by], [set_ext_id]
      x/exchange/keeper/fulfillment.go closeSettlement (release FILLED orders' holds, transfers + fees,
                                       store the unfilled part, delete the filled orders); reached from
                                       SettleOrders, FillBids and FillAsks               -> [settle]
      x/exchange/keeper/commitments.go addCommitment, ReleaseCommitment(s), ReleaseAllCommitmentsForMarket,
                                       SettleCommitments, setCommitmentAmount            -> [add_commitment] ...
      x/exchange/commitments.go        SimplifyAccountAmounts, AccountAmount.Validate    -> [simplify], [entries_valid]
      x/exchange/keeper/payments.go    CreatePayment, AcceptPayment, RejectPayment(s), CancelPayments,
                                       UpdatePaymentTarget, deletePaymentAndReleaseHold  -> [pay_*]
      x/exchange/keeper/market.go      CloseMarket, WithdrawMarketFunds                  -> [close_market], [withdraw]
      x/exchange/keeper/genesis.go     InitGenesis (hold coverage check)                 -> [genesis_init]
      x/hold/keeper/locked_coins.go    GetLockedCoins (answers unless the HOLD bypass is set;
                                       the bank's vesting-locked bypass does not concern it) -> [hold_of] in [spendable], [delegate_coins]
      cosmos-sdk (fork) x/bank/keeper  LockedCoins = unvested + hold, SpendableCoins,
                                       subUnlockedCoins, addCoins                        -> [vlock_of], [spendable], [spend], [credit]
                                       DelegateCoins (LockedCoins with the vesting bypass),
                                       x/auth/vesting TrackDelegation                    -> [delegate]

    Conventions / what is assumed about anything external:
    - Accounts, denoms, markets, order ids and payment external ids are interned to [Z] by the
      harness (only equality matters).  Amounts are [Z].
    - [coins] is a list of (denom, amount); its meaning is [amt_of] (sum of the entries of a
      denom), so sdk.Coins.Add is [coins_add] and no sortedness invariant is needed.  An ask whose
      flat fee is in the ASSETS denom therefore has a hold amount with two entries of one denom;
      AddHold processes them one after the other against the running hold, which is the same
      function as sdk.Coins.Add merging them first ([add_hold_iff] in Proofs/HoldsAdmit.v).
    - Stores are first-match association lists ([afind]/[aset]/[adel]); a KV store is the special
      case with distinct keys, which every function here preserves ([kv_ok], Proofs/HoldsWf.v).
    - Bank (forked cosmos-sdk, trusted): locked coins of an account are the coins still vesting
      ([vest]; it changes only when block time moves on ([OTime], the new locks are an observed
      input) or the account delegates ([ODelegate])) plus the coins on hold; [spend] is subUnlockedCoins (refuses to take the balance below what is
      locked), [credit] is addCoins.  Recipients of exchange fees (market account, fee collector)
      are not tracked; a market withdrawal is only the credit to the receiving account.
    - What the model does NOT decide: market flags, permissions other than the cancel permission
      bit handed in with OCancel, required attributes, fee sufficiency, marker send restrictions,
      BuildSettlement's matching, and address SPELLING: accounts are identified by their bytes,
      while RejectPayment / AcceptPayment / UpdatePaymentTarget compare the stored target string
      and CancelOrder the stored owner string with the canonical (lower-case) spelling -- a
      payment whose target was given in upper-case bech32 cannot be rejected through
      MsgRejectPayment (only through MsgRejectPayments, which goes by the index).  Every operation carries [adm] = "every check the model does not
      make itself passed".  With [adm = false] the state is unchanged (tx rollback).  With
      [adm = true] the model applies the hold-relevant effect and REFUSES ([RRefused], state
      unchanged) when its own checks fail: existence, owner-or-permission for a cancel, spendable
      funds for fees and new holds, committed / held amounts for releases, split divisibility,
      duplicate ids ...  So for [adm = true] the result is a PREDICTION of accept/reject that the
      correspondence compares with the implementation in both directions.  The harness sets [adm]
      from facts it knows by construction (message ValidateBasic, signer has the permission) and,
      for order / commitment creation, from the implementation's answer to the same message in a
      copy of the state where the sender has unlimited spendable funds (so a refusal that remains
      is not about funds).  For order settlement [adm] is the implementation's own answer (the
      matching is not modelled), the net balance effect of the transfers and fees is an input
      observed by the harness ([xfers]) and so are the filled orders.
    - CloseMarket swallows the errors of the individual cancellations / releases.  A Go
      ReleaseHold that fails half way leaves the denominations it did release released; the model
      skips the whole item instead.  The two differ only when some hold is SMALLER than what the
      records require, which no reachable state shows ([C02_inv_reachable]); under cover nothing
      is skipped at all ([close_market_delta] in Proofs/HoldsMultiWf.v).
    - An errored operation returns the OLD state.  No proofs in this file. *)
From Coq Require Import ZArith List Bool.
Import ListNotations.
Open Scope Z_scope.

Definition obind {A B} (o : option A) (f : A -> option B) : option B :=
  match o with Some a => f a | None => None end.

(** ** First-match association lists (the stores). *)
Section AList.
  Context {K V : Type}.
  Variable eqb : K -> K -> bool.

  Fixpoint afind (k : K) (l : list (K * V)) : option V :=
    match l with
    | [] => None
    | (k', v) :: r => if eqb k k' then Some v else afind k r
    end.

  (** store.Set: overwrite the entry or add one. *)
  Fixpoint aset (k : K) (v : V) (l : list (K * V)) : list (K * V) :=
    match l with
    | [] => [(k, v)]
    | (k', v') :: r => if eqb k k' then (k', v) :: r else (k', v') :: aset k v r
    end.

  (** store.Delete. *)
  Fixpoint adel (k : K) (l : list (K * V)) : list (K * V) :=
    match l with
    | [] => []
    | (k', v') :: r => if eqb k k' then r else (k', v') :: adel k r
    end.
End AList.

Definition key2 := (Z * Z)%type.
Definition k2_eqb (x y : key2) : bool := (fst x =? fst y) && (snd x =? snd y).

Definition zget (k : key2) (l : list (key2 * Z)) : Z :=
  match afind k2_eqb k l with Some v => v | None => 0 end.

(** ** Coins. *)
Definition coin := (Z * Z)%type.            (* denom, amount *)
Definition coins := list coin.

Fixpoint amt_of (cs : coins) (d : Z) : Z :=
  match cs with
  | [] => 0
  | c :: r => (if fst c =? d then snd c else 0) + amt_of r d
  end.

Definition coins_is_zero (cs : coins) : bool := forallb (fun c => snd c =? 0) cs.
Definition coins_nonneg (cs : coins) : bool := forallb (fun c => 0 <=? snd c) cs.
Definition coins_pos (cs : coins) : bool := forallb (fun c => 0 <? snd c) cs.

Fixpoint coins_add1 (d v : Z) (cs : coins) : coins :=
  match cs with
  | [] => [(d, v)]
  | c :: r => if fst c =? d then (d, snd c + v) :: r else c :: coins_add1 d v r
  end.
Definition coins_add (a b : coins) : coins :=
  fold_left (fun acc c => coins_add1 (fst c) (snd c) acc) b a.
Definition coins_neg (b : coins) : coins := map (fun c => (fst c, - snd c)) b.
Definition coins_trim (cs : coins) : coins := filter (fun c => negb (snd c =? 0)) cs.
Definition coins_sub (a b : coins) : coins := coins_trim (coins_add a (coins_neg b)).
(** Coins.SafeSub reports no negative result. *)
Definition coins_geb (a b : coins) : bool :=
  forallb (fun c => amt_of b (fst c) <=? amt_of a (fst c)) b.
(** Coins.Equal (both sides valid coins). *)
Definition coins_eqb (a b : coins) : bool :=
  forallb (fun c => amt_of a (fst c) =? amt_of b (fst c)) (a ++ b).

(** ** Orders. *)
Record order := mk_order {
  o_ask : bool;        (* true = ask, false = bid *)
  o_owner : Z;         (* seller / buyer *)
  o_market : Z;
  o_assets : coin;
  o_price : coin;
  o_fees : coins;      (* ask: seller settlement flat fee (at most one coin); bid: buyer settlement fees *)
  o_partial : bool }.

(** AskOrder.GetHoldAmount: the assets, plus the flat fee only when its denom differs from the
    price denom (otherwise it is taken out of the price received).
    BidOrder.GetHoldAmount: BuyerSettlementFees.Add(Price). *)
Definition order_hold (o : order) : coins :=
  if o_ask o
  then o_assets o :: filter (fun f => negb (fst f =? fst (o_price o))) (o_fees o)
  else o_fees o ++ [o_price o].

Definition order_valid (o : order) : bool :=
  (0 <? snd (o_assets o)) && (0 <? snd (o_price o)) &&
  negb (fst (o_assets o) =? fst (o_price o)) && coins_pos (o_fees o) &&
  (if o_ask o then (Z.of_nat (length (o_fees o)) <=? 1) else true).

(** Order.Split: (filled part, unfilled part). *)
Definition split_order (o : order) (filled : Z) : option (order * order) :=
  let a := snd (o_assets o) in
  if (filled <=? 0) || (filled =? a) || (a <? filled) || negb (o_partial o) then None
  else
    let p := snd (o_price o) in
    if negb (Z.rem (p * filled) a =? 0) then None
    else if negb (forallb (fun f => Z.rem (snd f * filled) a =? 0) (o_fees o)) then None
    else
      let pf := Z.quot (p * filled) a in
      let ff := map (fun f => (fst f, Z.quot (snd f * filled) a)) (o_fees o) in
      let fu := map (fun f => (fst f, snd f - Z.quot (snd f * filled) a)) (o_fees o) in
      Some (mk_order (o_ask o) (o_owner o) (o_market o) (fst (o_assets o), filled)
                     (fst (o_price o), pf) (coins_trim ff) (o_partial o),
            mk_order (o_ask o) (o_owner o) (o_market o) (fst (o_assets o), a - filled)
                     (fst (o_price o), p - pf) (coins_trim fu) (o_partial o)).

(** ** State. *)
Record payment := mk_payment { p_samt : coins; p_tamt : coins; p_target : Z (* 0 = none *) }.

Record state := mk_state {
  orders : list (Z * order);            (* order id |-> order *)
  last_id : Z;
  commits : list (key2 * coins);        (* (market, account) |-> committed funds *)
  pays : list (key2 * payment);         (* (source, external id) |-> payment *)
  holds : list (key2 * Z);              (* (account, denom) |-> amount on hold *)
  bals : list (key2 * Z);               (* (account, denom) |-> bank balance *)
  vest : list (key2 * Z) }.             (* (account, denom) |-> amount locked by a vesting schedule *)

Definition set_orders (s : state) (x : list (Z * order)) (lid : Z) : state :=
  mk_state x lid (commits s) (pays s) (holds s) (bals s) (vest s).
Definition set_commits (s : state) (x : list (key2 * coins)) : state :=
  mk_state (orders s) (last_id s) x (pays s) (holds s) (bals s) (vest s).
Definition set_pays (s : state) (x : list (key2 * payment)) : state :=
  mk_state (orders s) (last_id s) (commits s) x (holds s) (bals s) (vest s).
Definition set_holds (s : state) (x : list (key2 * Z)) : state :=
  mk_state (orders s) (last_id s) (commits s) (pays s) x (bals s) (vest s).
Definition set_bals (s : state) (x : list (key2 * Z)) : state :=
  mk_state (orders s) (last_id s) (commits s) (pays s) (holds s) x (vest s).
Definition set_vest (s : state) (x : list (key2 * Z)) : state :=
  mk_state (orders s) (last_id s) (commits s) (pays s) (holds s) (bals s) x.

Definition hold_of (s : state) (a d : Z) : Z := zget (a, d) (holds s).
Definition bal_of (s : state) (a d : Z) : Z := zget (a, d) (bals s).
(** Only positive locked amounts count (the bank's getLockedCoinsFnWrapper drops the rest). *)
Definition vlock_of (s : state) (a d : Z) : Z := Z.max 0 (zget (a, d) (vest s)).
(** SpendableCoins: balance minus everything locked (still vesting + on hold). *)
Definition spendable (s : state) (a d : Z) : Z := bal_of s a d - hold_of s a d - vlock_of s a d.

(** ** What the exchange records require to be reserved. *)
Definition sum_by {X} (f : X -> Z) (l : list X) : Z := fold_right (fun x acc => f x + acc) 0 l.

Definition order_req (a d : Z) (e : Z * order) : Z :=
  if o_owner (snd e) =? a then amt_of (order_hold (snd e)) d else 0.
Definition commit_req (a d : Z) (e : key2 * coins) : Z :=
  if snd (fst e) =? a then amt_of (snd e) d else 0.
Definition pay_req (a d : Z) (e : key2 * payment) : Z :=
  if fst (fst e) =? a then amt_of (p_samt (snd e)) d else 0.

Definition required (s : state) (a d : Z) : Z :=
  sum_by (order_req a d) (orders s) + sum_by (commit_req a d) (commits s) + sum_by (pay_req a d) (pays s).

(** ** Hold keeper. *)
(** AddHold (with ValidateNewHold): every positive coin must be covered by the spendable balance. *)
Fixpoint add_hold (s : state) (a : Z) (cs : coins) : option state :=
  match cs with
  | [] => Some s
  | c :: r =>
      let d := fst c in let v := snd c in
      if v =? 0 then add_hold s a r
      else if v <? 0 then None
      else if spendable s a d <? v then None
      else add_hold (set_holds s (aset k2_eqb (a, d) (hold_of s a d + v) (holds s))) a r
  end.

(** ReleaseHold: cannot release more than is on hold. *)
Fixpoint release_hold (s : state) (a : Z) (cs : coins) : option state :=
  match cs with
  | [] => Some s
  | c :: r =>
      let d := fst c in let v := snd c in
      if v =? 0 then release_hold s a r
      else if v <? 0 then None
      else if hold_of s a d - v <? 0 then None
      else release_hold (set_holds s (aset k2_eqb (a, d) (hold_of s a d - v) (holds s))) a r
  end.

(** ** Bank. *)
(** subUnlockedCoins: the bank refuses to spend what is locked (still vesting or on hold). *)
Fixpoint spend (s : state) (a : Z) (cs : coins) : option state :=
  match cs with
  | [] => Some s
  | c :: r =>
      let d := fst c in let v := snd c in
      if v =? 0 then spend s a r
      else if v <? 0 then None
      else if spendable s a d <? v then None
      else spend (set_bals s (aset k2_eqb (a, d) (bal_of s a d - v) (bals s))) a r
  end.

Fixpoint credit (s : state) (a : Z) (cs : coins) : option state :=
  match cs with
  | [] => Some s
  | c :: r =>
      let d := fst c in let v := snd c in
      if v <? 0 then None
      else credit (set_bals s (aset k2_eqb (a, d) (bal_of s a d + v) (bals s))) a r
  end.

Definition send (s : state) (from to : Z) (cs : coins) : option state :=
  obind (spend s from cs) (fun s1 => credit s1 to cs).

(** DelegateCoins (bank; reached from staking's MsgDelegate / MsgCreateValidator): the one bank
    route that asks for the locked coins with the "vesting locked bypass" flag set, so coins that
    are still vesting MAY be delegated, while every other locked-coins getter -- the hold module's
    among them -- must keep answering: per coin, [balance - on hold] must cover the amount.  The
    balance goes down; a vesting account's TrackDelegation then counts the delegated coins against
    the still-vesting ones first (X = min(max(V - DV, 0), D)), so its vesting lock shrinks by the
    amount (not below zero).  Coins.IsValid: positive amounts, no denom twice. *)
Fixpoint delegate_coins (s : state) (a : Z) (cs : coins) : option state :=
  match cs with
  | [] => Some s
  | c :: r =>
      let d := fst c in let v := snd c in
      if bal_of s a d - hold_of s a d <? v then None
      else delegate_coins
             (set_vest (set_bals s (aset k2_eqb (a, d) (bal_of s a d - v) (bals s)))
                       (aset k2_eqb (a, d) (Z.max 0 (vlock_of s a d - v)) (vest s))) a r
  end.

(** Net effect of a group of bank transfers (signed deltas per (account, denom)); every spend
    inside the group was checked by the bank, so at the end no touched balance is below its hold,
    and a balance that was debited is not below hold + still-vesting either. *)
Definition apply_net (s : state) (xs : list (key2 * Z)) : option state :=
  let b := fold_left (fun b x => aset k2_eqb (fst x) (zget (fst x) b + snd x) b) xs (bals s) in
  if forallb (fun x => zget (fst x) (holds s)
                       + (if snd x <? 0 then Z.max 0 (zget (fst x) (vest s)) else 0) <=? zget (fst x) b) xs
  then Some (set_bals s b) else None.

Fixpoint fold_opt {X} (f : X -> state -> option state) (l : list X) (s : state) : option state :=
  match l with
  | [] => Some s
  | x :: r => obind (f x s) (fold_opt f r)
  end.

(** Run [f], swallowing its error (CloseMarket logs errors and carries on). *)
Definition try_or_skip (f : state -> option state) (s : state) : option state :=
  match f s with Some s' => Some s' | None => Some s end.

Fixpoint nodupb (l : list Z) : bool :=
  match l with
  | [] => true
  | x :: r => negb (existsb (Z.eqb x) r) && nodupb r
  end.

Fixpoint dedupe (l : list Z) (seen : list Z) : list Z :=
  match l with
  | [] => []
  | x :: r => if existsb (Z.eqb x) seen then dedupe r seen else x :: dedupe r (x :: seen)
  end.

Definition delegate (a : Z) (cs : coins) (s : state) : option state :=
  if negb (coins_pos cs && nodupb (map fst cs)) then None else delegate_coins s a cs.

(** Block time moves on: the vesting schedules unlock coins.  The new locks are an input (the
    SDK's vesting arithmetic is not modelled); nothing else changes. *)
Definition set_time (v : list (key2 * Z)) (s : state) : option state := Some (set_vest s v).

(** ** Orders (keeper). *)
(** CreateAskOrder / CreateBidOrder: collect the creation fee, store under the next id, place
    the hold. *)
Definition create_order (o : order) (cfee : coins) (s : state) : option state :=
  if negb (order_valid o) then None
  else
    obind (spend s (o_owner o) cfee) (fun s1 =>
      let id := last_id s1 + 1 in
      let s2 := set_orders s1 (aset Z.eqb id o (orders s1)) id in
      add_hold s2 (o_owner o) (order_hold o)).

(** CancelOrder (after the permission check): release the ORDER's hold amount and delete it. *)
Definition cancel_order (id : Z) (s : state) : option state :=
  obind (afind Z.eqb id (orders s)) (fun o =>
  obind (release_hold s (o_owner o) (order_hold o)) (fun s1 =>
    Some (set_orders s1 (adel Z.eqb id (orders s1)) (last_id s1)))).

(** CancelOrder as reached from MsgCancelOrder: the signer must be the order's owner or hold the
    cancel permission of the order's market ([priv], a fact about the market's access grants). *)
Definition cancel_order_by (signer : Z) (priv : bool) (id : Z) (s : state) : option state :=
  obind (afind Z.eqb id (orders s)) (fun o =>
    if (signer =? o_owner o) || priv then cancel_order id s else None).

(** SetOrderExternalID: the order must exist; its amounts (and so its hold) are untouched. *)
Definition set_ext_id (id : Z) (s : state) : option state :=
  obind (afind Z.eqb id (orders s)) (fun _ => Some s).

(** closeSettlement for one fully filled order: release its hold, delete it.  (Go releases all
    holds first and deletes after the transfers; the hold store and the order store are
    disjoint and the ids are duplicate-free, so doing it per order is the same function.) *)
Definition fill_full (id : Z) (s : state) : option state := cancel_order id s.

(** closeSettlement for the partially filled order: release the hold of the FILLED part of the
    split, store the unfilled part under the same id. *)
Definition fill_partial (id filled : Z) (s : state) : option state :=
  obind (afind Z.eqb id (orders s)) (fun o =>
  obind (split_order o filled) (fun fl =>
  obind (release_hold s (o_owner o) (order_hold (fst fl))) (fun s1 =>
    Some (set_orders s1 (aset Z.eqb id (snd fl) (orders s1)) (last_id s1))))).

(** [req] are the order ids exactly as listed in the message (asks then bids): ValidateOrderIDs /
    findDuplicateIDs refuse a message that names an order twice. *)
Definition settle (req fulls : list Z) (part : option (Z * Z)) (xfers : list (key2 * Z)) (s : state)
  : option state :=
  if negb (nodupb req) then None
  else if negb (nodupb (fulls ++ match part with Some p => [fst p] | None => [] end)) then None
  else
    obind (fold_opt fill_full fulls s) (fun s1 =>
    obind (match part with
           | Some p => fill_partial (fst p) (snd p) s1
           | None => Some s1
           end) (fun s2 =>
    apply_net s2 xfers)).

(** ** Commitments (keeper). *)
Definition cget (k : key2) (l : list (key2 * coins)) : coins :=
  match afind k2_eqb k l with Some v => v | None => [] end.
(** setCommitmentAmount: a zero amount deletes the entry. *)
Definition cset (k : key2) (v : coins) (l : list (key2 * coins)) : list (key2 * coins) :=
  if coins_is_zero v then adel k2_eqb k l else aset k2_eqb k (coins_trim v) l.

Definition add_commitment (m a : Z) (amount : coins) (s : state) : option state :=
  if coins_is_zero amount then Some s
  else if negb (coins_nonneg amount) then None
  else
    obind (add_hold s a amount) (fun s1 =>
      Some (set_commits s1 (cset (m, a) (coins_add (cget (m, a) (commits s1)) amount) (commits s1)))).

(** MsgCommitFunds: creation fee, then AddCommitment. *)
Definition commit_funds (m a : Z) (amount cfee : coins) (s : state) : option state :=
  obind (spend s a cfee) (add_commitment m a amount).

(** ReleaseCommitment, the decision: (what stays committed, what is released) from the current
    commitment and the requested amount; a zero [amount] means "everything". *)
Definition release_split (cur amount : coins) : option (coins * coins) :=
  if negb (coins_nonneg amount) then None
  else if coins_is_zero cur then None
  else if negb (coins_is_zero amount)
       then (if coins_geb cur amount then Some (coins_sub cur amount, amount) else None)
       else Some ([], cur).

Definition release_commitment (m : Z) (e : Z * coins) (s : state) : option state :=
  let a := fst e in
  obind (release_split (cget (m, a) (commits s)) (snd e)) (fun nr =>
  obind (release_hold s a (snd nr)) (fun s1 =>
    Some (set_commits s1 (cset (m, a) (fst nr) (commits s1))))).

Definition release_commitments (m : Z) (es : list (Z * coins)) (s : state) : option state :=
  fold_opt (release_commitment m) es s.

(** SimplifyAccountAmounts: one entry per account, first-occurrence order, amounts added. *)
Fixpoint simplify_add (a : Z) (cs : coins) (acc : list (Z * coins)) : list (Z * coins) :=
  match acc with
  | [] => [(a, coins_add [] cs)]
  | e :: r => if fst e =? a then (a, coins_add (snd e) cs) :: r else e :: simplify_add a cs r
  end.
Definition simplify (es : list (Z * coins)) : list (Z * coins) :=
  fold_left (fun acc e => simplify_add (fst e) (snd e) acc) es [].

Definition net_of (sign : Z) (es : list (Z * coins)) : list (key2 * Z) :=
  flat_map (fun e => map (fun c => ((fst e, fst c), sign * snd c)) (snd e)) es.

Definition sum_entries (es : list (Z * coins)) : coins :=
  fold_left (fun acc e => coins_add acc (snd e)) es [].

(** AccountAmount.Validate for every entry (MsgMarketCommitmentSettleRequest.ValidateBasic):
    a non-empty amount of positive coins. *)
Definition entries_valid (es : list (Z * coins)) : bool :=
  forallb (fun e => match snd e with [] => false | _ => coins_pos (snd e) end) es.

(** SettleCommitments: release inputs and fees, move the funds (inputs out, outputs in, fees to the
    market account), commit the outputs again without the market checks. *)
Definition settle_commitments (m : Z) (inputs outputs fees : list (Z * coins)) (s : state)
  : option state :=
  if negb (entries_valid inputs && entries_valid outputs && entries_valid fees) then None
  else
  let ins := simplify inputs in
  let outs := simplify outputs in
  let fs := simplify fees in
  if negb (coins_eqb (sum_entries ins) (sum_entries outs)) then None
  else
    obind (release_commitments m (simplify (ins ++ fs)) s) (fun s1 =>
    obind (apply_net s1 (net_of (-1) ins ++ net_of 1 outs ++ net_of (-1) fs)) (fun s2 =>
    fold_opt (fun e => add_commitment m (fst e) (snd e)) outs s2)).

(** ** Payments (keeper).  Only the SOURCE amount is ever on hold. *)
Definition delete_release (k : key2) (s : state) : option state :=
  obind (afind k2_eqb k (pays s)) (fun p =>
  obind (release_hold s (fst k) (p_samt p)) (fun s1 =>
    Some (set_pays s1 (adel k2_eqb k (pays s1))))).

Definition pay_create (src ext : Z) (samt tamt : coins) (target : Z) (s : state) : option state :=
  if negb (coins_pos samt && coins_pos tamt)
     || (coins_is_zero samt && coins_is_zero tamt) then None
  else
    match afind k2_eqb (src, ext) (pays s) with
    | Some _ => None
    | None =>
        let s1 := set_pays s (aset k2_eqb (src, ext) (mk_payment samt tamt target) (pays s)) in
        add_hold s1 src samt
    end.

Definition pay_accept (src ext : Z) (samt tamt : coins) (target : Z) (s : state) : option state :=
  if target =? 0 then None
  else
    obind (afind k2_eqb (src, ext) (pays s)) (fun p =>
      if negb (coins_eqb samt (p_samt p) && coins_eqb tamt (p_tamt p) && (target =? p_target p))
      then None
      else
        obind (delete_release (src, ext) s) (fun s1 =>
        obind (send s1 src target (p_samt p)) (fun s2 =>
        send s2 target src (p_tamt p)))).

Definition pay_reject (target src ext : Z) (s : state) : option state :=
  if (target =? 0) then None
  else
    obind (afind k2_eqb (src, ext) (pays s)) (fun p =>
      if (p_target p =? 0) || negb (p_target p =? target) then None
      else delete_release (src, ext) s).

(** The payments of [src] that name [target]. *)
Definition pays_from_to (target src : Z) (l : list (key2 * payment)) : list (key2 * payment) :=
  filter (fun e => (fst (fst e) =? src) && (p_target (snd e) =? target)) l.

(** RejectPayments: every payment of each listed source that names this target. *)
Definition pay_reject_source (target src : Z) (s : state) : option state :=
  let ks := map fst (pays_from_to target src (pays s)) in
  match ks with
  | [] => None
  | _ => fold_opt delete_release ks s
  end.

Definition pay_reject_all (target : Z) (srcs : list Z) (s : state) : option state :=
  if (target =? 0) then None
  else match srcs with
       | [] => None
       | _ => fold_opt (pay_reject_source target) (dedupe srcs []) s
       end.

Definition pay_cancel (src : Z) (exts : list Z) (s : state) : option state :=
  match exts with
  | [] => None
  | _ => fold_opt (fun ext => delete_release (src, ext)) (dedupe exts []) s
  end.

Definition pay_retarget (src ext newt : Z) (s : state) : option state :=
  obind (afind k2_eqb (src, ext) (pays s)) (fun p =>
    if p_target p =? newt then None
    else Some (set_pays s (aset k2_eqb (src, ext) (mk_payment (p_samt p) (p_tamt p) newt) (pays s)))).

(** ** Markets. *)
Definition market_orders (m : Z) (l : list (Z * order)) : list (Z * order) :=
  filter (fun e => o_market (snd e) =? m) l.
Definition market_commits (m : Z) (l : list (key2 * coins)) : list (key2 * coins) :=
  filter (fun e => fst (fst e) =? m) l.

(** CloseMarket: cancel every order of the market and release every commitment to it; errors
    of the individual cancellations / releases are logged and skipped. *)
Definition close_market (m : Z) (s : state) : option state :=
  let ids := map fst (market_orders m (orders s)) in
  obind (fold_opt (fun id => try_or_skip (cancel_order id)) ids s) (fun s1 =>
    let accts := map (fun e => snd (fst e)) (market_commits m (commits s1)) in
    fold_opt (fun a => try_or_skip (release_commitment m (a, []))) accts s1).

(** WithdrawMarketFunds: the market account (not tracked) pays [to]. *)
Definition withdraw (to : Z) (amount : coins) (s : state) : option state := credit s to amount.

(** ** Operations and histories. *)
Inductive op :=
| OCreate (adm : bool) (o : order) (cfee : coins)
| OCancel (adm : bool) (signer : Z) (priv : bool) (id : Z)
| OSettle (adm : bool) (req fulls : list Z) (part : option (Z * Z)) (xfers : list (key2 * Z))
| OCommit (adm : bool) (m a : Z) (amount cfee : coins)
| ORelease (adm : bool) (m : Z) (entries : list (Z * coins))
| OCommitSettle (adm : bool) (m : Z) (inputs outputs fees : list (Z * coins))
| OPayCreate (adm : bool) (src ext : Z) (samt tamt : coins) (target : Z)
| OPayAccept (adm : bool) (src ext : Z) (samt tamt : coins) (target : Z)
| OPayReject (adm : bool) (target src ext : Z)
| OPayRejectAll (adm : bool) (target : Z) (srcs : list Z)
| OPayCancel (adm : bool) (src : Z) (exts : list Z)
| OPayRetarget (adm : bool) (src ext newt : Z)
| OManageFees (adm : bool)          (* any market administration that touches neither records nor funds *)
| OSetExtId (adm : bool) (id : Z)
| OWithdraw (adm : bool) (to : Z) (amount : coins)
| ODelegate (adm : bool) (a : Z) (amount : coins)   (* staking delegation of the account's own funds *)
| OTime (adm : bool) (v : list (key2 * Z))          (* block time advanced; the vesting locks are now [v] *)
| OCloseMarket (adm : bool) (m : Z).

(** [ROk] accepted; [RRejected] refused by a check outside the model ([adm = false]);
    [RRefused] refused by the model's own (hold-relevant) checks. *)
Inductive result := ROk | RRejected | RRefused.

Definition op_adm (o : op) : bool :=
  match o with
  | OCreate b _ _ | OCancel b _ _ _ | OSettle b _ _ _ _ | OCommit b _ _ _ _ | ORelease b _ _
  | OCommitSettle b _ _ _ _ | OPayCreate b _ _ _ _ _ | OPayAccept b _ _ _ _ _
  | OPayReject b _ _ _ | OPayRejectAll b _ _ | OPayCancel b _ _ | OPayRetarget b _ _ _
  | OManageFees b | OSetExtId b _ | OWithdraw b _ _ | ODelegate b _ _ | OTime b _ | OCloseMarket b _ => b
  end.

Definition op_fun (o : op) : state -> option state :=
  match o with
  | OCreate _ ord cfee => create_order ord cfee
  | OCancel _ signer priv id => cancel_order_by signer priv id
  | OSettle _ req fulls part xfers => settle req fulls part xfers
  | OCommit _ m a amount cfee => commit_funds m a amount cfee
  | ORelease _ m es => match es with [] => fun _ => None | _ => release_commitments m es end
  | OCommitSettle _ m i o f => settle_commitments m i o f
  | OPayCreate _ src ext sa ta t => pay_create src ext sa ta t
  | OPayAccept _ src ext sa ta t => pay_accept src ext sa ta t
  | OPayReject _ t src ext => pay_reject t src ext
  | OPayRejectAll _ t srcs => pay_reject_all t srcs
  | OPayCancel _ src exts => pay_cancel src exts
  | OPayRetarget _ src ext nt => pay_retarget src ext nt
  | OManageFees _ => fun s => Some s
  | OSetExtId _ id => set_ext_id id
  | OWithdraw _ to amount => withdraw to amount
  | ODelegate _ a amount => delegate a amount
  | OTime _ v => set_time v
  | OCloseMarket _ m => close_market m
  end.

Definition step (s : state) (o : op) : state * result :=
  if op_adm o then
    match op_fun o s with
    | Some s' => (s', ROk)
    | None => (s, RRefused)
    end
  else (s, RRejected).

Definition run (s : state) (ops : list op) : state := fold_left (fun s o => fst (step s o)) ops s.

(** ** Reserved amount of the item(s) an operation creates (+) or consumes (-), read off the
    exchange records of the state BEFORE the operation (never off the hold store). *)
Definition order_req_of (s : state) (id : Z) (a d : Z) : Z :=
  match afind Z.eqb id (orders s) with Some o => order_req a d (id, o) | None => 0 end.
Definition pay_req_of (s : state) (k : key2) (a d : Z) : Z :=
  match afind k2_eqb k (pays s) with Some p => pay_req a d (k, p) | None => 0 end.
Definition entries_amt (es : list (Z * coins)) (a d : Z) : Z :=
  sum_by (fun e => if fst e =? a then amt_of (snd e) d else 0) es.

(** A release list is consumed entry by entry: each entry releases the amount it names, or (zero
    amount) the whole commitment of that account AS IT STANDS after the entries before it (the
    same account may be listed more than once). *)
Fixpoint release_delta (m : Z) (cs : list (key2 * coins)) (es : list (Z * coins)) (a d : Z) : Z :=
  match es with
  | [] => 0
  | e :: r =>
      match release_split (cget (m, fst e) cs) (snd e) with
      | Some nr =>
          (if fst e =? a then amt_of (snd nr) d else 0)
          + release_delta m (cset (m, fst e) (fst nr) cs) r a d
      | None => 0
      end
  end.

Definition reserved_delta (s : state) (o : op) (a d : Z) : Z :=
  match o with
  | OCreate _ ord _ => if o_owner ord =? a then amt_of (order_hold ord) d else 0
  | OCancel _ _ _ id => - order_req_of s id a d
  | OSettle _ _ fulls part _ =>
      - sum_by (fun id => order_req_of s id a d) fulls
      - match part with
        | Some p =>
            match afind Z.eqb (fst p) (orders s) with
            | Some o =>
                match split_order o (snd p) with
                | Some fl => order_req a d (fst p, fst fl)
                | None => 0
                end
            | None => 0
            end
        | None => 0
        end
  | OCommit _ m acct amount _ => if acct =? a then amt_of amount d else 0
  | ORelease _ m es => - release_delta m (commits s) es a d
  | OCommitSettle _ m i outs f => entries_amt outs a d - entries_amt i a d - entries_amt f a d
  | OPayCreate _ src _ samt _ _ => if src =? a then amt_of samt d else 0
  | OPayAccept _ src ext _ _ _ => - pay_req_of s (src, ext) a d
  | OPayReject _ _ src ext => - pay_req_of s (src, ext) a d
  | OPayRejectAll _ t srcs =>
      - sum_by (fun src => sum_by (pay_req a d) (pays_from_to t src (pays s))) (dedupe srcs [])
  | OPayCancel _ src exts => - sum_by (fun ext => pay_req_of s (src, ext) a d) (dedupe exts [])
  | OPayRetarget _ _ _ _ => 0
  | OManageFees _ => 0
  | OSetExtId _ _ => 0
  | OWithdraw _ _ _ => 0
  | ODelegate _ _ _ => 0
  | OTime _ _ => 0
  | OCloseMarket _ m =>
      - sum_by (order_req a d) (market_orders m (orders s))
      - sum_by (commit_req a d) (market_commits m (commits s))
  end.

(** Operations whose [reserved_delta] is exact in EVERY state; the other two (reject-all,
    close market) need the stores to be KV stores (distinct keys) and, for close market, every
    record to be covered by the holds (else cancellations are skipped). *)
Definition needs_wf (o : op) : bool :=
  match o with
  | OPayRejectAll _ _ _ | OCloseMarket _ _ => true
  | _ => false
  end.

(** ** Genesis: InitGenesis stores the records and panics unless every account has at least the
    required amount on hold for every denom its records need (coverage only: holds that exceed
    what the records need, or holds of accounts without records, are accepted). *)
Definition genesis_keys (s : state) : list key2 :=
  flat_map (fun e => map (fun c => (o_owner (snd e), fst c)) (order_hold (snd e))) (orders s) ++
  flat_map (fun e => map (fun c => (snd (fst e), fst c)) (snd e)) (commits s) ++
  flat_map (fun e => map (fun c => (fst (fst e), fst c)) (p_samt (snd e))) (pays s).

Definition genesis_init (s : state) : option state :=
  if forallb (fun e => fst e <=? last_id s) (orders s)
     && forallb (fun e => 0 <=? snd e) (holds s)
     && forallb (fun k => required s (fst k) (snd k) <=? hold_of s (fst k) (snd k)) (genesis_keys s)
  then Some s else None.
