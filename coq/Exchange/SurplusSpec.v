(** The rule by which a settlement's price improvement is handed to the sellers (property C01).

    Nothing here is a model of code: it is the closed form that Proofs/Surplus.v proves the
    leftover distribution loop of allocatePrice (Exchange/Fulfill.v: [first_pass], [leftover_loop],
    [lo_step], [consume]) to compute.

    A settlement is accepted only when the bids together pay at least what the asks together ask
    for (for a partially filled order: the price of its filled part).  [L] = total bid price -
    total ask price is the surplus.  It all goes to the sellers:
      1. ask i with [af_i] assets filled out of [TA] = sum of all assets filled first receives its
         floor share  q_i = L * af_i / TA  (rounded down);
      2. what is then still undistributed, R = L - sum q_i (fewer units than there are asks), is
         handed out in the order in which the asks are listed in the request: ask i takes
         min (max q_i 1, what is left), until nothing is left.
    Which BID each unit comes from depends on the order of the bids, but every bid pays exactly its
    price in total, so that only shows in the pairing of the bank transfers, never in a net amount.
    No proofs in this file. *)
From Coq Require Import ZArith List.
From PV Require Export Exchange.SettleSpec.
Import ListNotations.
Open Scope Z_scope.

(** The floor share of an ask with [af] assets filled ([Z.quot] = sdkmath.Int.Quo; all operands are
    non-negative, so it is the floor). *)
Definition floor_share (L TA af : Z) : Z := Z.quot (L * af) TA.

(** Hand out [r] units in list order: entry i takes [min cap_i r'] of the [r'] units still left. *)
Fixpoint greedy (caps : list Z) (r : Z) : list Z :=
  match caps with
  | [] => []
  | c :: cs => let g := Z.min c r in g :: greedy cs (r - g)
  end.

Fixpoint zip_add (x y : list Z) : list Z :=
  match x, y with
  | a :: x', b :: y' => (a + b) :: zip_add x' y'
  | _, _ => []
  end.

(** What each ask receives on top of its own price: [afs] = assets filled per ask, request order. *)
Definition surplus (L : Z) (afs : list Z) : list Z :=
  let TA := sumz (fun z => z) afs in
  let qs := map (floor_share L TA) afs in
  let R := L - sumz (fun z => z) qs in
  zip_add qs (greedy (map (fun q => Z.max q 1) qs) R).
