(** Model of the pure settlement pipeline [exchange.BuildSettlement] (property C01).

    Go source transcribed (x/exchange/fulfillment.go), function by function:
      validateCanSettle, newOrderFulfillments, allocateAssets / getFulfillmentAssetsAmt /
      distributeAssets, splitPartial / splitOrderFulfillments / SplitOrder, allocatePrice
      (first pass + leftover distribution) / getFulfillmentPriceAmt / distributePrice,
      setFeesToPay (FeeRatio.ApplyToLoosely), validateFulfillments / orderFulfillment.Validate,
      buildTransfers / getAssetTransfer / getPriceTransfer / IndexedAddrAmts, populateFilled.

    Index variables of the Go loops are zippers here: [bdone] holds the bids before index [b]
    (reversed), [brest] the bids from index [b] on.  A Go error and a Go panic are both [Err]
    (the transaction fails either way).  Loops that are not structurally recursive take fuel;
    Proofs/FulfillProofs.v shows the fuel given by [build] is never exhausted.
    Assumes valid orders (see Split.v).  No proofs in this file. *)
From Coq Require Import ZArith List Bool PArith.
From PV Require Import Exchange.Arith.
From PV Require Export Exchange.Split.
Import ListNotations.
Open Scope Z_scope.
Open Scope res_scope.

(** ** IndexedAddrAmts: insertion-ordered address -> coins. *)
Definition indexed := list (addr * coins).

Fixpoint idx_add_known (i : indexed) (a : addr) (c : coins) : option indexed :=
  match i with
  | [] => None
  | (a', c') :: r =>
      if Pos.eqb a a' then Some ((a', coins_add c' c) :: r)
      else match idx_add_known r a c with Some r' => Some ((a', c') :: r') | None => None end
  end.

Definition idx_add (i : indexed) (a : addr) (c : coins) : indexed :=
  if coins_is_zero c then i
  else match idx_add_known i a c with Some i' => i' | None => i ++ [(a, c)] end.

(** GetAsInputs / GetAsOutputs: panics unless every entry is all-positive. *)
Definition idx_get (i : indexed) : res indexed :=
  if forallb (fun e => coins_all_pos (snd e)) i then Ok i else Err.

(** ** Transfers, filled orders, settlements *)
Record transfer := { t_in : indexed; t_out : indexed }.
Record filled := { fo_order : order; fo_price : Z; fo_fees : coins }.
Record settlement := {
  s_transfers : list transfer;
  s_fee_inputs : indexed;
  s_full : list filled;
  s_partial : option filled;
  s_left : option order }.

Record ratio := { r_pd : denom; r_p : Z; r_fd : denom; r_f : Z }.

(** ** orderFulfillment *)
Record ofl := {
  f_order : order;
  f_adists : list (addr * Z);
  f_pdists : list (addr * Z);
  f_afilled : Z; f_aunfilled : Z;
  f_papplied : Z; f_pleft : Z;
  f_fees : coins }.

Definition new_ofl (o : order) : ofl :=
  {| f_order := o; f_adists := []; f_pdists := []; f_afilled := 0; f_aunfilled := o_assets o;
     f_papplied := 0; f_pleft := o_price o; f_fees := [] |}.

Definition f_owner (f : ofl) : addr := o_owner (f_order f).

(** validateCanSettle *)
Definition all_eq (l : list denom) : bool :=
  match l with [] => false | d :: r => forallb (Pos.eqb d) r end.

Definition hd_denom (l : list denom) : denom := match l with d :: _ => d | [] => 1%positive end.

Definition validate_can_settle (asks bids : list order) : bool :=
  match asks, bids with
  | _ :: _, _ :: _ =>
      forallb o_ask asks && forallb (fun o => negb (o_ask o)) bids &&
      all_eq (map o_ad asks) && all_eq (map o_pd asks) &&
      all_eq (map o_ad bids) && all_eq (map o_pd bids) &&
      Pos.eqb (hd_denom (map o_ad asks)) (hd_denom (map o_ad bids)) &&
      Pos.eqb (hd_denom (map o_pd asks)) (hd_denom (map o_pd bids))
  | _, _ => false
  end.

(** DistributeAssets *)
Definition dist_assets (f : ofl) (other : addr) (amt : Z) : res ofl :=
  if f_aunfilled f <? amt then Err
  else Ok {| f_order := f_order f; f_adists := f_adists f ++ [(other, amt)]; f_pdists := f_pdists f;
             f_afilled := f_afilled f + amt; f_aunfilled := f_aunfilled f - amt;
             f_papplied := f_papplied f; f_pleft := f_pleft f; f_fees := f_fees f |}.

(** DistributePrice: only a bid can be over-filled. *)
Definition dist_price (f : ofl) (other : addr) (amt : Z) : res ofl :=
  if (f_pleft f <? amt) && negb (o_ask (f_order f)) then Err
  else Ok {| f_order := f_order f; f_adists := f_adists f; f_pdists := f_pdists f ++ [(other, amt)];
             f_afilled := f_afilled f; f_aunfilled := f_aunfilled f;
             f_papplied := f_papplied f + amt; f_pleft := f_pleft f - amt; f_fees := f_fees f |}.

(** errors.Join of the two directions: both are evaluated, any error fails. *)
Definition dist_assets2 (a b : ofl) (amt : Z) : res (ofl * ofl) :=
  a' <- dist_assets a (f_owner b) amt ;; b' <- dist_assets b (f_owner a) amt ;; Ok (a', b').
Definition dist_price2 (a b : ofl) (amt : Z) : res (ofl * ofl) :=
  a' <- dist_price a (f_owner b) amt ;; b' <- dist_price b (f_owner a) amt ;; Ok (a', b').

(** allocateAssets: [adone]/[bdone] are the completed prefixes (reversed). *)
Fixpoint alloc_assets (fuel : nat) (adone asks bdone bids : list ofl) : res (list ofl * list ofl) :=
  match asks, bids with
  | a :: ar, b :: br =>
      match fuel with
      | O => OutOfFuel
      | S fuel' =>
          if (f_aunfilled a <=? 0) || (f_aunfilled b <=? 0) then Err
          else
            let amt := Z.min (f_aunfilled a) (f_aunfilled b) in
            '(a', b') <- dist_assets2 a b amt ;;
            let af := f_aunfilled a' =? 0 in
            let bf := f_aunfilled b' =? 0 in
            if negb af && negb bf then Err
            else alloc_assets fuel'
                   (if af then a' :: adone else adone) (if af then ar else a' :: ar)
                   (if bf then b' :: bdone else bdone) (if bf then br else b' :: br)
      end
  | _, _ => Ok (rev adone ++ asks, rev bdone ++ bids)
  end.

Definition allocate_assets (asks bids : list ofl) : res (list ofl * list ofl) :=
  alloc_assets (S (length asks + length bids)%nat) [] asks [] bids.

(** SplitOrder *)
Definition split_ofl (f : ofl) : res (ofl * order) :=
  '(fil, unf) <- split (f_order f) (f_afilled f) ;;
  Ok ({| f_order := fil; f_adists := f_adists f; f_pdists := f_pdists f;
         f_afilled := f_afilled f; f_aunfilled := 0;
         f_papplied := f_papplied f; f_pleft := o_price fil - f_papplied f; f_fees := f_fees f |}, unf).

(** splitOrderFulfillments *)
Fixpoint split_fs (fs : list ofl) (lft : option order) : res (list ofl * option order) :=
  match fs with
  | [] => Ok ([], lft)
  | f :: r =>
      if f_afilled f =? 0 then Err                      (* no assets filled *)
      else if negb (f_aunfilled f =? 0) then
        match r with
        | _ :: _ => Err                                 (* not filled in full and not the last *)
        | [] =>
            match lft with
            | Some _ => Err                             (* two partially filled orders *)
            | None => '(f', unf) <- split_ofl f ;; Ok ([f'], Some unf)
            end
        end
      else '(r', lft') <- split_fs r lft ;; Ok (f :: r', lft')
  end.

Definition split_partial (asks bids : list ofl) : res (list ofl * list ofl * option order) :=
  '(asks', l1) <- split_fs asks None ;;
  '(bids', l2) <- split_fs bids l1 ;;
  Ok (asks', bids', l2).

Definition sum_pleft (fs : list ofl) : Z := fold_left (fun acc f => acc + f_pleft f) fs 0.
Definition sum_afilled (fs : list ofl) : Z := fold_left (fun acc f => acc + f_afilled f) fs 0.

(** First pass, inner loop for one ask:
    for askOF.PriceLeftAmt.IsPositive() && bidOFs[b].PriceLeftAmt.IsPositive() *)
Fixpoint fp_inner (fuel : nat) (a : ofl) (bdone brest : list ofl) (tot : Z)
  : res (ofl * list ofl * list ofl * Z) :=
  if f_pleft a <=? 0 then Ok (a, bdone, brest, tot)
  else
    match brest with
    | [] => Err                                          (* bidOFs[b]: index out of range *)
    | b :: br =>
        if f_pleft b <=? 0 then Ok (a, bdone, brest, tot)
        else
          match fuel with
          | O => OutOfFuel
          | S fuel' =>
              let amt := Z.min (f_pleft a) (f_pleft b) in
              '(a', b') <- dist_price2 a b amt ;;
              if f_pleft b' <=? 0 then fp_inner fuel' a' (b' :: bdone) br (tot + amt)
              else fp_inner fuel' a' bdone (b' :: br) (tot + amt)
          end
    end.

Fixpoint first_pass (asks bdone brest : list ofl) (tot : Z)
  : res (list ofl * list ofl * list ofl * Z) :=
  match asks with
  | [] => Ok ([], bdone, brest, tot)
  | a :: ar =>
      '(a', bd, br, t) <- fp_inner (S (length brest)) a bdone brest tot ;;
      '(ar', bd', br', t') <- first_pass ar bd br t ;;
      Ok (a' :: ar', bd', br', t')
  end.

(** Leftover loop, inner part:
    for !addPriceAmt.IsZero() && b < len(bidOFs) && bidOFs[b].PriceLeftAmt.LTE(addPriceAmt) *)
Fixpoint consume (a : ofl) (add lft : Z) (bdone brest : list ofl)
  : res (ofl * Z * Z * list ofl * list ofl) :=
  match brest with
  | [] => Ok (a, add, lft, bdone, brest)
  | b :: br =>
      if add =? 0 then Ok (a, add, lft, bdone, brest)
      else if add <? f_pleft b then Ok (a, add, lft, bdone, brest)
      else
        let bl := f_pleft b in
        '(a', b') <- dist_price2 a b bl ;;
        consume a' (add - bl) (lft - bl) (b' :: bdone) br
  end.

(** One iteration of the leftover distribution loop for the current ask [a] (after the index
    has been advanced): the ask, what is left to distribute and the bids afterwards.
    [first1] is firstPass; the [continue] of the Go loop returns everything unchanged. *)
Definition lo_step (total_left total_assets : Z) (a : ofl) (first1 : bool) (lft : Z)
    (bdone brest : list ofl) : res (ofl * Z * list ofl * list ofl) :=
  match brest with
  | [] => Err                                   (* panic: no bid orders left *)
  | _ :: _ =>
      m <- mulchk total_left (f_afilled a) ;;
      if total_assets =? 0 then Err             (* Quo by zero panics *)
      else
        let add0 := Z.quot m total_assets in
        if (add0 =? 0) && first1 then Ok (a, lft, bdone, brest)
        else
          let add1 := if add0 =? 0 then 1 else add0 in
          let add2 := Z.min add1 lft in
          '(a1, add3, left1, bdone1, brest1) <- consume a add2 lft bdone brest ;;
          if add3 =? 0 then Ok (a1, left1, bdone1, brest1)
          else
            match brest1 with
            | [] => Ok (a1, left1, bdone1, brest1)
            | b :: br =>
                '(a2, b2) <- dist_price2 a1 b add3 ;;
                if f_pleft b2 =? 0 then Ok (a2, left1 - add3, b2 :: bdone1, br)
                else Ok (a2, left1 - add3, bdone1, b2 :: br)
            end
  end.

(** The leftover distribution loop.  [adone] = asks before the current index (reversed),
    [arest] = asks from the current index on; an empty [arest] is the wrap-around. *)
Fixpoint leftover_loop (fuel : nat) (total_left total_assets : Z)
    (adone arest : list ofl) (first : bool) (lft : Z) (bdone brest : list ofl)
  : res (list ofl * list ofl) :=
  if lft =? 0 then Ok (rev adone ++ arest, rev bdone ++ brest)
  else
    match fuel with
    | O => OutOfFuel
    | S fuel' =>
        let '(adone1, arest1, first1) :=
          match arest with [] => ([], rev adone, false) | _ :: _ => (adone, arest, first) end in
        match arest1 with
        | [] => Err                                       (* askOFs[0] on an empty list *)
        | a :: ar =>
            '(a', lft', bdone', brest') <- lo_step total_left total_assets a first1 lft bdone brest ;;
            leftover_loop fuel' total_left total_assets (a' :: adone1) ar first1 lft' bdone' brest'
        end
    end.

(** allocatePrice *)
Definition allocate_price (asks bids : list ofl) : res (list ofl * list ofl) :=
  let total_ask := sum_pleft asks in
  let total_bid := sum_pleft bids in
  if total_bid <? total_ask then Err
  else
    '(asks1, bdone, brest, tot) <- first_pass asks [] bids 0 ;;
    if tot =? total_bid then Ok (asks1, rev bdone ++ brest)
    else
      let total_left := total_bid - tot in
      leftover_loop (S (2 * length asks1)%nat) total_left (sum_afilled asks1) [] asks1 true total_left bdone brest.

(** setFeesToPay: [None] = no ratio for the market (lookup returned nil). *)
Definition ratio_fee (r : ratio) (pd : denom) (p : Z) : res coin :=
  if negb (Pos.eqb (r_pd r) pd) then Err
  else match apply_loosely_chk (r_p r) (r_f r) p with
       | Some (Some (amt, _)) => Ok (r_fd r, amt)
       | _ => Err
       end.

Definition set_fee (f : ofl) (fees : coins) : ofl :=
  {| f_order := f_order f; f_adists := f_adists f; f_pdists := f_pdists f;
     f_afilled := f_afilled f; f_aunfilled := f_aunfilled f;
     f_papplied := f_papplied f; f_pleft := f_pleft f; f_fees := fees |}.

Fixpoint set_ask_fees (asks : list ofl) (r : option ratio) : res (list ofl) :=
  match asks with
  | [] => Ok []
  | a :: ar =>
      let base := o_fees (f_order a) in
      a' <- match r with
            | None => Ok (set_fee a base)
            | Some rt => '(d, amt) <- ratio_fee rt (o_pd (f_order a)) (f_papplied a) ;;
                         Ok (set_fee a (coins_add1 base d amt))
            end ;;
      ar' <- set_ask_fees ar r ;;
      Ok (a' :: ar')
  end.

Definition set_bid_fees (bids : list ofl) : list ofl :=
  map (fun b => set_fee b (o_fees (f_order b))) bids.

(** orderFulfillment.Validate *)
Definition validate_ofl (f : ofl) : bool :=
  let o := f_order f in
  (if o_ask o then negb (f_papplied f <? o_price o) else o_price o =? f_papplied f)
  && (o_assets o =? f_afilled f).

(** getAssetTransfer / getPriceTransfer share their shape. *)
Fixpoint index_dists (d : denom) (dists : list (addr * Z)) (idx : indexed) (sum : Z)
  : res (indexed * Z) :=
  match dists with
  | [] => Ok (idx, sum)
  | (a, amt) :: r =>
      if amt <=? 0 then Err else index_dists d r (idx_add idx a [(d, amt)]) (sum + amt)
  end.

Definition get_asset_transfer (f : ofl) : res transfer :=
  let o := f_order f in
  if f_afilled f <=? 0 then Err
  else
    '(idx, sum) <- index_dists (o_ad o) (f_adists f) [] 0 ;;
    if negb (sum =? f_afilled f) then Err
    else
      io <- idx_get idx ;;
      let own := [(o_owner o, [(o_ad o, f_afilled f)])] in
      Ok (if o_ask o then {| t_in := own; t_out := io |} else {| t_in := io; t_out := own |}).

Definition get_price_transfer (f : ofl) : res transfer :=
  let o := f_order f in
  if f_papplied f <=? 0 then Err
  else
    '(idx, sum) <- index_dists (o_pd o) (f_pdists f) [] 0 ;;
    if negb (sum =? f_papplied f) then Err
    else
      io <- idx_get idx ;;
      let own := [(o_owner o, [(o_pd o, f_papplied f)])] in
      Ok (if o_ask o then {| t_in := io; t_out := own |} else {| t_in := own; t_out := io |}).

(** buildTransfers' [record] closure over one list. *)
Fixpoint record_all (getter : ofl -> res transfer) (fs : list ofl) (fees : indexed)
  : res (list transfer * indexed) :=
  match fs with
  | [] => Ok ([], fees)
  | f :: r =>
      t <- getter f ;;
      fees' <- (if coins_is_zero (f_fees f) then Ok fees
                else if coins_any_neg (f_fees f) then Err
                else Ok (idx_add fees (f_owner f) (f_fees f))) ;;
      '(ts, fees'') <- record_all getter r fees' ;;
      Ok (t :: ts, fees'')
  end.

Definition as_filled (f : ofl) : filled :=
  {| fo_order := f_order f; fo_price := f_papplied f; fo_fees := f_fees f |}.

(** populateFilled: the partial order is recognised by its order id. *)
Definition populate (fs : list ofl) (lft : option order) (full : list filled) (part : option filled)
  : list filled * option filled :=
  fold_left (fun (st : list filled * option filled) f =>
    let '(full, part) := st in
    match lft with
    | Some l => if Pos.eqb (o_id l) (o_id (f_order f)) then (full, Some (as_filled f))
                else (full ++ [as_filled f], part)
    | None => (full ++ [as_filled f], part)
    end) fs (full, part).

(** BuildSettlement.  [lookup] is sellerFeeRatioLookup applied to the first ask's price denom. *)
Definition build (asks bids : list order) (lookup : res (option ratio)) : res settlement :=
  if negb (validate_can_settle asks bids) then Err
  else
    '(a1, b1) <- allocate_assets (map new_ofl asks) (map new_ofl bids) ;;
    '(a2, b2, lft) <- split_partial a1 b1 ;;
    '(a3, b3) <- allocate_price a2 b2 ;;
    r <- lookup ;;
    a4 <- set_ask_fees a3 r ;;
    let b4 := set_bid_fees b3 in
    if negb (forallb validate_ofl a4 && forallb validate_ofl b4) then Err
    else
      '(ts1, fees1) <- record_all get_asset_transfer a4 [] ;;
      '(ts2, fees2) <- record_all get_price_transfer b4 fees1 ;;
      fi <- (match fees2 with [] => Ok [] | _ => idx_get fees2 end) ;;
      let '(full1, part1) := populate a4 lft [] None in
      let '(full2, part2) := populate b4 lft full1 part1 in
      Ok {| s_transfers := ts1 ++ ts2; s_fee_inputs := fi; s_full := full2;
            s_partial := part2; s_left := lft |}.
