(** Exchange permission model (property C11).

    Transcribed Go (repository under check, x/exchange):
      keeper/market.go   storeHasPermission, grantPermissions, revokePermissions,
                         revokeUserPermissions, getUserPermissions, HasPermission, Can* helpers,
                         UpdatePermissions (three loops with error accumulation)
      keeper/msg_server.go  the guard at the top of every MsgServer method
      keeper/orders.go   Keeper.CancelOrder (owner-or-permission check)
      keeper/payments.go AcceptPayment, RejectPayment, RejectPayments, CancelPayments,
                         UpdatePaymentTarget (identity checks only)
      msgs.go            DefineCustomGetSigners (payment.source / payment.target)

    The handler-level model [endpoint_allowed] is DEFINED FROM THE GENERATED TABLES
    (Gen/GenExchangePerms.v, regenerated from the Go source on every run): endpoint -> guard row ->
    Can* helper row -> Permission_* constant.  Anything the tables do not determine (unknown
    helper, unrecognised guard, guard preceded by another keeper call, request fields other than
    MarketId/Admin) is modelled as "everyone passes", so that the theorems about the generated
    table stop checking instead of silently assuming protection.

    The DOCUMENTED table is transcribed by hand from x/exchange/spec/01_concepts.md §"Market
    Permissions", spec/03_messages.md (MarketCommitmentSettle: PERMISSION_SETTLE; CancelOrder; payments)
    and the enum comments of proto/provenance/exchange/v1/market.proto.

    Assumed / abstracted: addresses, markets, order ids and payment external ids are interned to [N]
    (only equality matters); callers are well-formed bech32 strings (the messages' ValidateBasic
    rejects others before the handler runs), so the parse failure branch of HasPermission is not
    modelled; the authority is one address [auth] (IsAuthority compares with strings.EqualFold —
    case variants of the same bech32 string are the same address); the KV store is a list of
    grants with set semantics ([store_has]); hold release, bank transfers and events are outside the
    model (the harness sets every operation up so that they succeed).  An operation that fails
    returns the OLD state (tx rollback). *)
From Coq Require Import List String Bool NArith.
From PV Require Export Exchange.PermTypes.
From PV Require Import Gen.GenExchangePerms.
Import ListNotations.
Open Scope string_scope.

(* ------------------------------------------------------------------ permissions and grants *)

Inductive perm := PSettle | PSetIds | PCancel | PWithdraw | PUpdate | PPermissions | PAttributes.

Definition perm_num (p : perm) : N :=
  match p with
  | PSettle => 1 | PSetIds => 2 | PCancel => 3 | PWithdraw => 4
  | PUpdate => 5 | PPermissions => 6 | PAttributes => 7
  end%N.

Definition perm_eqb (a b : perm) : bool := N.eqb (perm_num a) (perm_num b).

Definition all_perms : list perm :=
  [PSettle; PSetIds; PCancel; PWithdraw; PUpdate; PPermissions; PAttributes].

(** exchange.Permission_* identifiers as they appear in the Go source. *)
Definition perm_of_string (s : string) : option perm :=
  if s =? "Permission_settle" then Some PSettle
  else if s =? "Permission_set_ids" then Some PSetIds
  else if s =? "Permission_cancel" then Some PCancel
  else if s =? "Permission_withdraw" then Some PWithdraw
  else if s =? "Permission_update" then Some PUpdate
  else if s =? "Permission_permissions" then Some PPermissions
  else if s =? "Permission_attributes" then Some PAttributes
  else None.

(** A grant is the store key MakeKeyMarketPermissions(market, address, permission). *)
Definition grant := (N * N * perm)%type.
Definition store := list grant.

Definition grant_eqb (a b : grant) : bool :=
  let '(m1, a1, p1) := a in
  let '(m2, a2, p2) := b in
  N.eqb m1 m2 && N.eqb a1 a2 && perm_eqb p1 p2.

(** storeHasPermission *)
Definition store_has (st : store) (m a : N) (p : perm) : bool := existsb (grant_eqb (m, a, p)) st.

Definition is_authority (auth a : N) : bool := N.eqb a auth.

(** Keeper.HasPermission: authority short-circuit, then the store entry for exactly
    (marketID, addr, permission). *)
Definition has_permission (auth : N) (st : store) (m a : N) (p : perm) : bool :=
  if is_authority auth a then true else store_has st m a p.

(* ------------------------------------------------------------------ handler-level model from the generated tables *)

Inductive requirement :=
| RPerm (p : perm)           (* caller must hold p on the request's market, or be the authority *)
| RAuthority                 (* caller must be the authority *)
| RRejectAll                 (* nobody passes *)
| RDelegated (call : string) (* no guard in the handler: the named keeper function decides *)
| RUnknown.                  (* the tables do not determine a guard *)

Definition lookup_helper (h : string) : option string :=
  match find (fun r => ch_name r =? h) gen_can_helpers with
  | Some r => Some (ch_perm r)
  | None => None
  end.

Definition helper_perm (h : string) : option perm :=
  match lookup_helper h with
  | Some s => perm_of_string s
  | None => None
  end.

Definition guard_requirement (r : ep_row) : requirement :=
  match ep_guard_of r with
  | EGCan h mf cf =>
      match ep_precalls r with
      | [] => if (mf =? "MarketId") && (cf =? "Admin")
              then match helper_perm h with Some p => RPerm p | None => RUnknown end
              else RUnknown
      | _ => RUnknown
      end
  | EGAuthority f =>
      match ep_precalls r with
      | [] => if f =? "Authority" then RAuthority else RUnknown
      | _ => RUnknown
      end
  | EGReject => match ep_precalls r with [] => RRejectAll | _ => RUnknown end
  | EGNone c => RDelegated c
  | EGUnrecognised _ => RUnknown
  end.

Definition lookup_endpoint (name : string) : option ep_row :=
  find (fun r => ep_name r =? name) gen_endpoints.

Definition endpoint_requirement (name : string) : requirement :=
  match lookup_endpoint name with
  | Some r => guard_requirement r
  | None => RUnknown
  end.

Definition requirement_allows (q : requirement) (auth : N) (st : store) (market caller : N) : bool :=
  match q with
  | RPerm p => has_permission auth st market caller p
  | RAuthority => is_authority auth caller
  | RRejectAll => false
  | RDelegated _ => true
  | RUnknown => true
  end.

(** Does the caller get past the guard of the endpoint (request for [market], signed by [caller])? *)
Definition endpoint_allowed (name : string) (auth : N) (st : store) (market caller : N) : bool :=
  requirement_allows (endpoint_requirement name) auth st market caller.

(** An item (order, commitment) of market [item_market] is changed by a Market* request only when
    the caller passes the guard for the request's market AND the item belongs to that market:
    Keeper.SetOrderExternalID ("order N has market id X, expected Y"), SettleOrders / getBidOrders /
    getAskOrders (every order must be in the request's market) and the commitment functions (keyed
    by the request's market id) reject anything else. *)
Definition item_changed (name : string) (auth : N) (st : store) (req_market item_market caller : N) : bool :=
  endpoint_allowed name auth st req_market caller && N.eqb req_market item_market.

(* ------------------------------------------------------------------ the documented table (hand transcription) *)

(** [RDelegated ""] = "not a privileged endpoint: no guard expected in the handler, whatever keeper
    function it calls". *)
Definition documented_endpoints : list (string * requirement) := [
  ("CreateAsk", RDelegated "");
  ("CreateBid", RDelegated "");
  ("CommitFunds", RDelegated "");
  (* spec: PERMISSION_CANCEL "can use the CancelOrder ... endpoints"; 03_messages: owner, or
     PERMISSION_CANCEL in the order's market: decided inside Keeper.CancelOrder *)
  ("CancelOrder", RDelegated "Keeper.CancelOrder");
  ("FillBids", RDelegated "");
  ("FillAsks", RDelegated "");
  ("MarketSettle", RPerm PSettle);                       (* PERMISSION_SETTLE *)
  ("MarketCommitmentSettle", RPerm PSettle);             (* 03_messages.md: PERMISSION_SETTLE *)
  ("MarketReleaseCommitments", RPerm PCancel);           (* PERMISSION_CANCEL *)
  ("MarketSetOrderExternalID", RPerm PSetIds);           (* PERMISSION_SET_IDS *)
  ("MarketWithdraw", RPerm PWithdraw);                   (* PERMISSION_WITHDRAW *)
  ("MarketUpdateDetails", RPerm PUpdate);                (* PERMISSION_UPDATE *)
  ("MarketUpdateEnabled", RRejectAll);                   (* deprecated, replaced *)
  ("MarketUpdateAcceptingOrders", RPerm PUpdate);
  ("MarketUpdateUserSettle", RPerm PUpdate);
  ("MarketUpdateAcceptingCommitments", RPerm PUpdate);
  ("MarketUpdateIntermediaryDenom", RPerm PUpdate);
  ("MarketManagePermissions", RPerm PPermissions);       (* PERMISSION_PERMISSIONS *)
  ("MarketManageReqAttrs", RPerm PAttributes);           (* PERMISSION_ATTRIBUTES *)
  ("CreatePayment", RDelegated "");
  ("AcceptPayment", RDelegated "Keeper.AcceptPayment");
  ("RejectPayment", RDelegated "Keeper.RejectPayment");
  ("RejectPayments", RDelegated "Keeper.RejectPayments");
  ("CancelPayments", RDelegated "Keeper.CancelPayments");
  ("ChangePaymentTarget", RDelegated "UpdatePaymentTarget");
  ("GovCreateMarket", RAuthority);
  ("GovManageFees", RAuthority);
  ("GovCloseMarket", RAuthority);
  ("GovUpdateParams", RRejectAll);                       (* deprecated and unusable *)
  ("UpdateParams", RAuthority)
].

Definition documented_requirement (name : string) : requirement :=
  match find (fun d => fst d =? name) documented_endpoints with
  | Some d => snd d
  | None => RUnknown
  end.

(** [req_matches documented generated] *)
Definition req_matches (d g : requirement) : bool :=
  match d, g with
  | RPerm p, RPerm p' => perm_eqb p p'
  | RAuthority, RAuthority => true
  | RRejectAll, RRejectAll => true
  | RDelegated a, RDelegated b => (a =? "") || (a =? b)
  | _, _ => false
  end.

Definition generated_requirements : list (string * requirement) :=
  map (fun r => (ep_name r, guard_requirement r)) gen_endpoints.

Fixpoint tables_match (doc gen : list (string * requirement)) : bool :=
  match doc, gen with
  | [], [] => true
  | d :: doc', g :: gen' => (fst d =? fst g) && req_matches (snd d) (snd g) && tables_match doc' gen'
  | _, _ => false
  end.

Fixpoint nodup_strings (l : list string) : bool :=
  match l with
  | [] => true
  | x :: r => negb (existsb (String.eqb x) r) && nodup_strings r
  end.

(** Documented structural fingerprint of HasPermission / storeHasPermission: the translator prints
    their statements alpha-normalised (parameters by position #i, the context as ctx, locals
    replaced by what they are bound to, so renaming or hoisting changes nothing): the authority
    short-circuit returning true, the bech32 parse failure returning false, and the store lookup
    under exactly (marketID, parsed address, permission) in these argument positions.  Their
    behaviour is pinned by the harness matrix in any case. *)
Definition documented_has_permission : list string := [
  (* HasPermission(ctx, #1 marketID, #2 address, #3 permission) *)
  "if k.IsAuthority(#2) { return true }";
  "if $2of(sdk.AccAddressFromBech32(#2)) != nil { return false }";
  "return storeHasPermission(k.getStore(ctx), #1, sdk.AccAddressFromBech32(#2), #3)"
].
Definition documented_store_has_permission : list string := [
  (* storeHasPermission(#0 store, #1 marketID, #2 addr, #3 permission) *)
  "return #0.Has(MakeKeyMarketPermissions(#1, #2, #3))"
].

Fixpoint strings_eqb (a b : list string) : bool :=
  match a, b with
  | [], [] => true
  | x :: a', y :: b' => (x =? y) && strings_eqb a' b'
  | _, _ => false
  end.

Definition has_permission_shape_ok : bool :=
  strings_eqb (fs_stmts gen_has_permission) documented_has_permission &&
  strings_eqb (fs_stmts gen_store_has_permission) documented_store_has_permission.

(* ------------------------------------------------------------------ UpdatePermissions (store level) *)

Record upd_req := {
  u_market : N;
  u_revoke_all : list N;                 (* msg.RevokeAll *)
  u_to_revoke : list (N * list perm);    (* msg.ToRevoke: AccessGrant = (address, permissions) *)
  u_to_grant : list (N * list perm)      (* msg.ToGrant *)
}.

Definition grant_of_user (m a : N) (g : grant) : bool :=
  let '(m', a', _) := g in N.eqb m' m && N.eqb a' a.

(** getUserPermissions *)
Definition user_perms (st : store) (m a : N) : store := filter (grant_of_user m a) st.
(** revokeUserPermissions: deleteAll under the (market, address) prefix *)
Definition revoke_user (st : store) (m a : N) : store := filter (fun g => negb (grant_of_user m a g)) st.
(** revokePermissions: store.Delete of each key *)
Definition revoke_perms (st : store) (m a : N) (ps : list perm) : store :=
  filter (fun g => negb (existsb (fun p => grant_eqb (m, a, p) g) ps)) st.
(** grantPermissions: store.Set of each key *)
Definition grant_perms (st : store) (m a : N) (ps : list perm) : store :=
  fold_left (fun s p => if store_has s m a p then s else (m, a, p) :: s) ps st.

(** The three loops; the boolean is [len(errs) > 0]. *)
Definition step_revoke_all (m : N) (acc : store * bool) (a : N) : store * bool :=
  let '(st, failed) := acc in
  let failed' := failed || (match user_perms st m a with [] => true | _ => false end) in
  (if failed' then st else revoke_user st m a, failed').

Definition step_to_revoke (m : N) (acc : store * bool) (ag : N * list perm) : store * bool :=
  let '(st, failed) := acc in
  let '(a, ps) := ag in
  let failed' := failed || existsb (fun p => negb (store_has st m a p)) ps in
  (if failed' then st else revoke_perms st m a ps, failed').

Definition step_to_grant (m : N) (acc : store * bool) (ag : N * list perm) : store * bool :=
  let '(st, failed) := acc in
  let '(a, ps) := ag in
  let failed' := failed || existsb (fun p => store_has st m a p) ps in
  (if failed' then st else grant_perms st m a ps, failed').

Definition update_permissions_raw (st : store) (r : upd_req) : store * bool :=
  let m := u_market r in
  let acc1 := fold_left (step_revoke_all m) (u_revoke_all r) (st, false) in
  let acc2 := fold_left (step_to_revoke m) (u_to_revoke r) acc1 in
  fold_left (step_to_grant m) (u_to_grant r) acc2.

(** Keeper.UpdatePermissions as seen by the transaction: an error rolls the writes back. *)
Definition update_permissions (st : store) (r : upd_req) : store * bool :=
  let '(st', failed) := update_permissions_raw st r in
  if failed then (st, false) else (st', true).

(** MsgServer.MarketManagePermissions: guard, then UpdatePermissions. *)
Definition manage_permissions (auth : N) (st : store) (admin : N) (r : upd_req) : store * bool :=
  if endpoint_allowed "MarketManagePermissions" auth st (u_market r) admin
  then update_permissions st r
  else (st, false).

Definition run_manage (auth : N) (st : store) (reqs : list (N * upd_req)) : store :=
  fold_left (fun s ar => fst (manage_permissions auth s (fst ar) (snd ar))) reqs st.

(** The (market, address, permission) triples a request names. *)
Definition names_grant (r : upd_req) (g : grant) : bool :=
  let '(m, a, p) := g in
  N.eqb m (u_market r) &&
  (existsb (N.eqb a) (u_revoke_all r)
   || existsb (fun ag => N.eqb a (fst ag) && existsb (perm_eqb p) (snd ag)) (u_to_revoke r)
   || existsb (fun ag => N.eqb a (fst ag) && existsb (perm_eqb p) (snd ag)) (u_to_grant r)).

(* ------------------------------------------------------------------ CancelOrder *)

Record order := { o_id : N; o_market : N; o_owner : N }.

(** The permission Keeper.CancelOrder accepts instead of ownership, read off the generated row:
    `if signer != owner && !k.<helper>(ctx, market, signer)` where (alpha-normalised: CancelOrder(ctx,
    #1 orderID, #2 signer)) owner = k.GetOrder(ctx, #1).GetOwner(), market = k.GetOrder(ctx,
    #1).GetMarketID(), and nothing is written before it.  [None] = not determined. *)
Definition delegation_of_cancel : string :=
  match find (fun d => fst d =? "CancelOrder") gen_delegations with
  | Some d => snd d
  | None => ""
  end.

Definition cancel_order_perm : option perm :=
  if (co_kind gen_cancel_order =? "OwnerOr")                 (* signer and caller are parameter #2 *)
     && (co_signer gen_cancel_order =? "#2") && (co_caller gen_cancel_order =? "#2")
     && (co_owner_src gen_cancel_order =? "k.GetOrder(ctx, #1).GetOwner()")
     && (co_market_src gen_cancel_order =? "k.GetOrder(ctx, #1).GetMarketID()")
     && negb (co_pre_write gen_cancel_order)
     && (delegation_of_cancel =? "k.Keeper.CancelOrder(ctx, msg.OrderId, msg.Signer)")
  then helper_perm (co_helper gen_cancel_order)
  else None.

Definition cancel_allowed (auth : N) (st : store) (o : order) (signer : N) : bool :=
  N.eqb signer (o_owner o) ||
  match cancel_order_perm with
  | Some p => has_permission auth st (o_market o) signer p
  | None => true
  end.

Definition order_eqb (a b : order) : bool :=
  N.eqb (o_id a) (o_id b) && N.eqb (o_market a) (o_market b) && N.eqb (o_owner a) (o_owner b).

(** Order ids are unique store keys in Go, so deleting the key deletes exactly the entry found. *)
Definition cancel_order (auth : N) (st : store) (orders : list order) (oid signer : N)
  : list order * bool :=
  match find (fun o => N.eqb (o_id o) oid) orders with
  | None => (orders, false)
  | Some o =>
      if endpoint_allowed "CancelOrder" auth st (o_market o) signer && cancel_allowed auth st o signer
      then (filter (fun o' => negb (order_eqb o' o)) orders, true)
      else (orders, false)
  end.

Definition run_cancels (auth : N) (st : store) (orders : list order) (ops : list (N * N)) : list order :=
  fold_left (fun os op => fst (cancel_order auth st os (fst op) (snd op))) ops orders.

(* ------------------------------------------------------------------ payments *)

Record payment := { p_source : N; p_ext : N; p_target : option N }.

Definition payment_row_of (f : string) : option payment_row :=
  find (fun r => pf_func r =? f) gen_payment_funcs.

Definition pair_in (a b : string) (l : list (string * string)) : bool :=
  existsb (fun c => (fst c =? a) && (snd c =? b)) l.

Definition delegation_of (endpoint : string) : string :=
  match find (fun d => fst d =? endpoint) gen_delegations with
  | Some d => snd d
  | None => ""
  end.

(** What the generated tables say the payment functions compare / look up (alpha-normalised: #i =
    i-th parameter of the keeper function, locals inlined), and which request field the handler
    passes in which position. *)
Definition accept_checks_target : bool :=
  match payment_row_of "AcceptPayment" with
  | Some r => pair_in "#1.Target"
                "k.requirePaymentFromStore(k.getStore(ctx), sdk.AccAddressFromBech32(#1.Source), #1.ExternalId).Target"
                (pf_conds r)
              && strings_eqb (pf_lookups r) ["k.requirePaymentFromStore(k.getStore(ctx), sdk.AccAddressFromBech32(#1.Source), #1.ExternalId)"]
              && (delegation_of "AcceptPayment" =? "k.Keeper.AcceptPayment(ctx, &msg.Payment)")
  | None => false
  end.
Definition reject_checks_target : bool :=
  match payment_row_of "RejectPayment" with
  | Some r => pair_in "#1.String()" "k.requirePaymentFromStore(k.getStore(ctx), #2, #3).Target" (pf_conds r)
              && strings_eqb (pf_lookups r) ["k.requirePaymentFromStore(k.getStore(ctx), #2, #3)"]
              && (delegation_of "RejectPayment" =?
                  "k.Keeper.RejectPayment(ctx, sdk.AccAddressFromBech32(msg.Target), sdk.AccAddressFromBech32(msg.Source), msg.ExternalId)")
  | None => false
  end.
Definition reject_all_by_target : bool :=
  match payment_row_of "RejectPayments" with
  | Some r => strings_eqb (pf_lookups r) ["k.getPaymentsForTargetAndSourceFromStore(k.getStore(ctx), #1, $elem(#2))"]
              && prefix "k.Keeper.RejectPayments(ctx, sdk.AccAddressFromBech32(msg.Target), " (delegation_of "RejectPayments")
  | None => false
  end.
Definition cancel_by_source : bool :=
  match payment_row_of "CancelPayments" with
  | Some r => strings_eqb (pf_lookups r) ["k.requirePaymentFromStore(k.getStore(ctx), #1, $elem(#2))"]
              && (delegation_of "CancelPayments" =?
                  "k.Keeper.CancelPayments(ctx, sdk.AccAddressFromBech32(msg.Source), msg.ExternalIds)")
  | None => false
  end.
Definition retarget_by_source : bool :=
  match payment_row_of "UpdatePaymentTarget" with
  | Some r => strings_eqb (pf_lookups r) ["k.requirePaymentFromStore(k.getStore(ctx), #1, #2)"]
              && prefix "k.UpdatePaymentTarget(ctx, sdk.AccAddressFromBech32(msg.Source), msg.ExternalId, " (delegation_of "ChangePaymentTarget")
  | None => false
  end.
(** msgs.go: the signer of MsgAcceptPaymentRequest is payment.target, of MsgCreatePaymentRequest
    payment.source (the other payment messages use the plain `source` / `target` fields). *)
Definition accept_signer_is_target : bool :=
  pair_in "MsgAcceptPaymentRequest" "payment.target" gen_custom_signers.
Definition create_signer_is_source : bool :=
  pair_in "MsgCreatePaymentRequest" "payment.source" gen_custom_signers.

Inductive pay_op :=
| PyCreate (signer ext : N) (target : option N)          (* source = signer *)
| PyAccept (signer src ext : N)                          (* msg.Payment.Target = signer *)
| PyReject (signer src ext : N)                          (* msg.Target = signer *)
| PyRejectAll (signer : N) (srcs : list N)
| PyCancel (signer : N) (exts : list N)                  (* msg.Source = signer *)
| PyRetarget (signer ext : N) (new_target : option N).

Definition op_signer (op : pay_op) : N :=
  match op with
  | PyCreate s _ _ | PyAccept s _ _ | PyReject s _ _ | PyRejectAll s _ | PyCancel s _ | PyRetarget s _ _ => s
  end.

Definition pay_key (src ext : N) (p : payment) : bool := N.eqb (p_source p) src && N.eqb (p_ext p) ext.

Definition opt_N_eqb (a b : option N) : bool :=
  match a, b with
  | Some x, Some y => N.eqb x y
  | None, None => true
  | _, _ => false
  end.

Fixpoint nodup_N (l : list N) : bool :=
  match l with
  | [] => true
  | x :: r => negb (existsb (N.eqb x) r) && nodup_N r
  end.

Definition payment_eqb (a b : payment) : bool :=
  N.eqb (p_source a) (p_source b) && N.eqb (p_ext a) (p_ext b) && opt_N_eqb (p_target a) (p_target b).

(** (source, external id) is a unique store key in Go, so deleting the key deletes exactly the
    entry found by the lookup. *)
Definition pay_step (st : list payment) (op : pay_op) : list payment * bool :=
  match op with
  | PyCreate s ext tgt =>
      if create_signer_is_source then
        if existsb (pay_key s ext) st then (st, false)
        else ({| p_source := s; p_ext := ext; p_target := tgt |} :: st, true)
      else ({| p_source := s; p_ext := ext; p_target := tgt |} :: st, true)
  | PyAccept s src ext =>
      match find (pay_key src ext) st with
      | None => (st, false)
      | Some e =>
          if (if accept_checks_target && accept_signer_is_target then opt_N_eqb (p_target e) (Some s) else true)
          then (filter (fun p => negb (payment_eqb p e)) st, true)
          else (st, false)
      end
  | PyReject s src ext =>
      match find (pay_key src ext) st with
      | None => (st, false)
      | Some e =>
          match p_target e with
          | None => (st, false)
          | Some _ =>
              if (if reject_checks_target then opt_N_eqb (p_target e) (Some s) else true)
              then (filter (fun p => negb (payment_eqb p e)) st, true)
              else (st, false)
          end
      end
  | PyRejectAll s srcs =>
      let hit (p : payment) :=
        existsb (N.eqb (p_source p)) srcs && (if reject_all_by_target then opt_N_eqb (p_target p) (Some s) else true) in
      match srcs with
      | [] => (st, false)
      | _ =>
          if negb (nodup_N srcs) then (st, false) (* ValidateBasic: duplicate entry *) else
          if forallb (fun src => existsb (fun p => N.eqb (p_source p) src &&
                         (if reject_all_by_target then opt_N_eqb (p_target p) (Some s) else true)) st) srcs
          then (filter (fun p => negb (hit p)) st, true)
          else (st, false)
      end
  | PyCancel s exts =>
      let hit (p : payment) :=
        existsb (N.eqb (p_ext p)) exts && (if cancel_by_source then N.eqb (p_source p) s else true) in
      match exts with
      | [] => (st, false)
      | _ =>
          if negb (nodup_N exts) then (st, false) (* ValidateBasic: duplicate entry *) else
          if forallb (fun ext => existsb (fun p => N.eqb (p_ext p) ext &&
                         (if cancel_by_source then N.eqb (p_source p) s else true)) st) exts
          then (filter (fun p => negb (hit p)) st, true)
          else (st, false)
      end
  | PyRetarget s ext nt =>
      let key (p : payment) := N.eqb (p_ext p) ext && (if retarget_by_source then N.eqb (p_source p) s else true) in
      match find key st with
      | None => (st, false)
      | Some e =>
          if opt_N_eqb (p_target e) nt then (st, false)
          else (map (fun p => if key p then {| p_source := p_source p; p_ext := p_ext p; p_target := nt |} else p) st, true)
      end
  end.

Definition run_payments (st : list payment) (ops : list pay_op) : list payment :=
  fold_left (fun s op => fst (pay_step s op)) ops st.
