(** C13 model: the exchange module's order / payment records and their lookup indexes, at the
    BYTE LEVEL of the store keys.

    Transcribed from /repo/x/exchange/keeper:
      keys.go      MakeKeyOrder, MakeIndexKeyMarketToOrder, MakeIndexKeyAddressToOrder,
                   MakeIndexKeyAssetToOrder, MakeIndexKeyMarketExternalIDToOrder, MakeKeyLastOrderID,
                   MakeKeyPayment, MakeIndexKeyTargetToPayment and the Get...Prefix functions
      orders.go    getLastOrderID/nextOrderID, getOrderFromStore, createConstantIndexEntries,
                   createMarketExternalIDToOrderEntry, setOrderInStore, deleteAndDeIndexOrder,
                   iterateOrderIndex, CancelOrder, SetOrderExternalID, CancelAllOrdersForMarket,
                   GetOrderByExternalID, CreateAskOrder/CreateBidOrder (store part)
      fulfillment.go closeSettlement (store part: partial order update first, then deletions)
      payments.go  setPaymentInStore, createPaymentInStore, deletePaymentFromStore,
                   getPaymentsForTargetAndSourceFromStore, RejectPayment(s), CancelPayments,
                   AcceptPayment (store part), UpdatePaymentTarget
    Keys are byte strings exactly as keys.go lays them out; VALUES are kept structured (the order
    and payment protobuf encodings are not modelled: [VOrder]/[VPay] stand for "type byte |
    protobuf(order)" and "protobuf(payment)"; index values are raw bytes).
    NOT modelled (decided by other properties, the harness keeps them satisfied): funds, holds,
    fees, permissions, required attributes, whether the market exists / accepts orders.  An
    operation's [wf_*] check stands for the message's ValidateBasic + Validate (non-zero market id,
    valid address = 1..255 bytes, valid denom ([denom_ok]), positive amount, external id <= 100 bytes).
    uint64 arithmetic is mod 2^64 ([nextOrderID] wraps).  A failing operation returns the OLD
    state (transaction rollback).  No proofs in this file. *)
From Coq Require Import ZArith NArith List Bool.
From PV Require Export Exchange.KV.
Import ListNotations.
Open Scope N_scope.

Definition bytes := list N.

Record order := {
  o_bid : bool;          (* false = ask (type byte 0x00), true = bid (0x01) *)
  o_market : N;          (* uint32 *)
  o_owner : bytes;       (* seller / buyer address bytes *)
  o_asset : bytes;       (* assets.denom *)
  o_amount : Z;          (* assets.amount (changes on partial fill) *)
  o_ext : bytes          (* external id, [] = none *)
}.

(** Accounts are identified by their address BYTES ([p_source], [p_target]: the store keys are built
    from the decoded bytes).  The payment record itself stores the bech32 STRINGS the message
    carried; bech32 has exactly two spellings of an address, all lower case (canonical,
    [AccAddress.String()]) and ALL UPPER CASE (mixed case does not decode), both accepted by
    Payment.Validate.  [p_src_up] / [p_tgt_up] say which spelling the stored string has
    (false = lower case); two address strings are equal iff bytes and spelling agree. *)
Record payment := {
  p_source : bytes;
  p_src_up : bool;       (* stored Source string is the upper-case spelling *)
  p_ext : bytes;         (* external id, may be empty *)
  p_target : bytes;      (* [] = no target *)
  p_tgt_up : bool;       (* stored Target string is the upper-case spelling (false when no target) *)
  p_amount : Z           (* source amount (opaque) *)
}.

Inductive val :=
| VOrder (o : order)
| VPay (p : payment)
| VBytes (b : bytes).

Definition st := store val.

Definition ty_byte (o : order) : N := if o_bid o then 1 else 0.

(** ---- keys.go ---- *)
Definition k_last : key := [8].
Definition k_order (id : N) : key := 2 :: u64be id.
Definition p_mkt (m : N) : key := 3 :: u32be m.
Definition k_mkt (m id : N) : key := p_mkt m ++ u64be id.
Definition p_addr (a : bytes) : key := 4 :: len_prefix a.
Definition k_addr (a : bytes) (id : N) : key := p_addr a ++ u64be id.
Definition p_asset (d : bytes) : key := 5 :: d.
Definition k_asset (d : bytes) (id : N) : key := p_asset d ++ u64be id.
Definition k_ext (m : N) (e : bytes) : key := 9 :: u32be m ++ e.
Definition p_all_orders : key := [2].
Definition p_all_pay : key := [112].
Definition p_pay_src (src : bytes) : key := 112 :: len_prefix src.
Definition k_pay (src e : bytes) : key := p_pay_src src ++ e.
Definition p_tgt (t : bytes) : key := 16 :: len_prefix t.
Definition p_tgt_src (t src : bytes) : key := p_tgt t ++ len_prefix src.
Definition k_tgt (t src e : bytes) : key := p_tgt_src t src ++ e.

(** ---- orders.go ---- *)
Definition last_order_id (s : st) : N :=
  match get s k_last with
  | Some (VBytes b) => match u64_from_bz b with Some n => n | None => 0 end
  | _ => 0
  end.

Definition next_order_id (s : st) : st * N :=
  let id := (last_order_id s + 1) mod two64 in
  (set s k_last (VBytes (u64be id)), id).

Definition get_order (s : st) (id : N) : option order :=
  match get s (k_order id) with
  | Some (VOrder o) => Some o
  | _ => None
  end.

(** createConstantIndexEntries *)
Definition const_entries (id : N) (o : order) : list (key * val) :=
  [ (k_mkt (o_market o) id, VBytes [ty_byte o]);
    (k_addr (o_owner o) id, VBytes [ty_byte o]);
    (k_asset (o_asset o) id, VBytes [ty_byte o]) ].

(** createMarketExternalIDToOrderEntry *)
Definition ext_entry (id : N) (o : order) : list (key * val) :=
  match o_ext o with
  | [] => []
  | e => [ (k_ext (o_market o) e, VBytes (u64be id)) ]
  end.

Definition set_all (s : st) (l : list (key * val)) : st :=
  fold_left (fun s' kv => set s' (fst kv) (snd kv)) l s.
Definition del_all (s : st) (l : list (key * val)) : st :=
  fold_left (fun s' kv => del s' (fst kv)) l s.

(** setOrderInStore: [None] = the "external id already in use" error. *)
Definition set_order_in_store (s : st) (id : N) (o : order) : option st :=
  let clash :=
    match ext_entry id o with
    | (ek, _) :: _ =>
        match get s ek with
        | Some (VBytes b) =>
            match u64_from_bz b with
            | Some other => negb (other =? id)
            | None => false
            end
        | _ => false
        end
    | [] => false
    end in
  if clash then None else
  let is_update := has s (k_order id) in
  let s1 := set s (k_order id) (VOrder o) in
  let s2 := if is_update then s1 else set_all s1 (const_entries id o) in
  Some (set_all s2 (ext_entry id o)).

(** deleteAndDeIndexOrder *)
Definition delete_and_deindex (s : st) (id : N) (o : order) : st :=
  del_all (del_all (del s (k_order id)) (const_entries id o)) (ext_entry id o).

Definition addr_ok (a : bytes) : bool := (Nat.leb 1 (length a)) && (Nat.leb (length a) 255).
Definition ext_ok (e : bytes) : bool := Nat.leb (length e) 100.

(** sdk.ValidateDenom with this chain's coin denom regex (app.SdkCoinDenomRegex =
    pioconfig.DefaultReDnmString): [a-zA-Z][a-zA-Z0-9/\-\.]{2,127} -- a letter, then 2..127
    letters, digits, '/', '-' or '.'; case sensitive, ':' and '_' are NOT legal here. *)
Definition is_letter (c : N) : bool := ((65 <=? c) && (c <=? 90)) || ((97 <=? c) && (c <=? 122)).
Definition is_dchar (c : N) : bool :=
  is_letter c || ((48 <=? c) && (c <=? 57)) || (c =? 47) || (c =? 45) || (c =? 46).
Definition denom_ok (d : bytes) : bool :=
  match d with
  | c :: r => is_letter c && Nat.leb 2 (length r) && Nat.leb (length r) 127 && forallb is_dchar r
  | [] => false
  end.

Definition wf_order (o : order) : bool :=
  negb (o_market o =? 0) && (o_market o <? two32) && addr_ok (o_owner o) &&
  denom_ok (o_asset o) && Z.ltb 0 (o_amount o) && ext_ok (o_ext o).

(** CreateAskOrder / CreateBidOrder (store part). *)
Definition create_order (s : st) (o : order) : option (st * N) :=
  if negb (wf_order o) then None else
  let '(s1, id) := next_order_id s in
  match set_order_in_store s1 id o with
  | Some s2 => Some (s2, id)
  | None => None
  end.

(** CancelOrder *)
Definition cancel_order (s : st) (id : N) : option st :=
  match get_order s id with
  | Some o => Some (delete_and_deindex s id o)
  | None => None
  end.

Definition with_ext (o : order) (e : bytes) : order :=
  {| o_bid := o_bid o; o_market := o_market o; o_owner := o_owner o; o_asset := o_asset o;
     o_amount := o_amount o; o_ext := e |}.
Definition with_amount (o : order) (a : Z) : order :=
  {| o_bid := o_bid o; o_market := o_market o; o_owner := o_owner o; o_asset := o_asset o;
     o_amount := a; o_ext := o_ext o |}.

Definition bytes_eqb (a b : bytes) : bool := key_eqb a b.

(** SetOrderExternalID *)
Definition set_order_ext (s : st) (m id : N) (e : bytes) : option st :=
  if negb (ext_ok e) then None else
  match get_order s id with
  | None => None
  | Some o =>
      if negb (o_market o =? m) then None else
      if bytes_eqb (o_ext o) e then None else
      let s1 := match o_ext o with
                | [] => s
                | old => del s (k_ext (o_market o) old)
                end in
      set_order_in_store s1 id (with_ext o e)
  end.

(** The (order id, type byte) pairs iterateOrderIndex passes to its callback for prefix [p]. *)
Definition index_scan (s : st) (p : key) : list (N * N) :=
  flat_map (fun kv =>
              match snd kv with
              | VBytes (t :: _) =>
                  if Nat.eqb (length (fst kv)) 8 then [(be_decode (fst kv), t)] else []
              | _ => []
              end) (pstore s p).

Fixpoint nodup_ids (l : list N) : bool :=
  match l with
  | [] => true
  | x :: r => negb (existsb (N.eqb x) r) && nodup_ids r
  end.

(** closeSettlement (store part): every listed order must exist; the partially filled order (if
    any) is rewritten with what is left, then the fully filled ones are deleted. *)
Definition fill_orders (s : st) (full : list N) (part : option (N * Z)) : option st :=
  let ids := full ++ match part with Some (id, _) => [id] | None => [] end in
  if negb (nodup_ids ids) then None else
  if negb (forallb (fun id => match get_order s id with Some _ => true | None => false end) ids)
  then None else
  let s1 :=
    match part with
    | Some (id, rest) =>
        match get_order s id with
        | Some o => if Z.leb rest 0 then None else set_order_in_store s id (with_amount o rest)
        | None => None
        end
    | None => Some s
    end in
  match s1 with
  | None => None
  | Some s1 =>
      Some (fold_left (fun s' id => match get_order s id with
                                    | Some o => delete_and_deindex s' id o
                                    | None => s'
                                    end) full s1)
  end.

(** CancelAllOrdersForMarket (CloseMarket): collect ids from the market index, cancel each
    (a failing cancel is only logged). *)
Definition close_market (s : st) (m : N) : st :=
  fold_left (fun s' idt => match cancel_order s' (fst idt) with
                           | Some s'' => s''
                           | None => s'
                           end) (index_scan s (p_mkt m)) s.

(** GetOrderByExternalID *)
Definition get_order_by_ext (s : st) (m : N) (e : bytes) : option (N * order) :=
  if (m =? 0) || Nat.eqb (length e) 0 || negb (ext_ok e) then None else
  match get s (k_ext m e) with
  | Some (VBytes b) =>
      match u64_from_bz b with
      | Some id => match get_order s id with Some o => Some (id, o) | None => None end
      | None => None
      end
  | _ => None
  end.

(** ---- payments.go ---- *)
Definition get_payment (s : st) (src e : bytes) : option payment :=
  match get s (k_pay src e) with
  | Some (VPay p) => Some p
  | _ => None
  end.

(** The empty string has one spelling: a payment term without target carries [p_tgt_up = false]. *)
Definition wf_payment (p : payment) : bool :=
  addr_ok (p_source p) && (Nat.eqb (length (p_target p)) 0 || addr_ok (p_target p)) &&
  ext_ok (p_ext p) && Z.ltb 0 (p_amount p) &&
  (negb (Nat.eqb (length (p_target p)) 0) || negb (p_tgt_up p)).

(** [existing.Target == payment.Target] as Go compares them: STRINGS (bytes and spelling). *)
Definition tgt_str_eqb (t1 : bytes) (u1 : bool) (t2 : bytes) (u2 : bool) : bool :=
  bytes_eqb t1 t2 && (Nat.eqb (length t1) 0 || Bool.eqb u1 u2).

(** setPaymentInStore: the record first, then the OLD index entry is deleted, then the new one
    written (in this order: when both keys coincide the entry must survive). *)
Definition set_payment_in_store (s : st) (p : payment) : st :=
  let pkey := k_pay (p_source p) (p_ext p) in
  let ikey := match p_target p with
              | [] => None
              | t => Some (k_tgt t (p_source p) (p_ext p))
              end in
  let '(ikey, old_ikey) :=
    match get_payment s (p_source p) (p_ext p) with
    | Some ex =>
        match p_target ex with
        | [] => (ikey, None)
        | t => (* case payment.Target: the STRINGS are equal; default: the old index key is
                  built from the stored target's BYTES -- it can coincide with the new key when
                  only the spelling differs *)
               if tgt_str_eqb t (p_tgt_up ex) (p_target p) (p_tgt_up p) then (None, None)
               else (ikey, Some (k_tgt t (p_source p) (p_ext p)))
        end
    | None => (ikey, None)
    end in
  let s1 := set s pkey (VPay p) in
  let s2 := match old_ikey with Some k => del s1 k | None => s1 end in
  match ikey with Some k => set s2 k (VBytes []) | None => s2 end.

(** CreatePayment / createPaymentInStore *)
Definition create_payment (s : st) (p : payment) : option st :=
  if negb (wf_payment p) then None else
  if has s (k_pay (p_source p) (p_ext p)) then None else
  Some (set_payment_in_store s p).

(** deletePaymentFromStore *)
Definition delete_payment (s : st) (p : payment) : st :=
  let s1 := del s (k_pay (p_source p) (p_ext p)) in
  match p_target p with
  | [] => s1
  | t => del s1 (k_tgt t (p_source p) (p_ext p))
  end.

(** AcceptPayment (store part, the submitted amounts equal the stored ones): the payment must
    exist and have a target; the submitted Source and Target STRINGS must equal the stored ones
    (bytes and spelling). *)
Definition accept_payment (s : st) (t : bytes) (tup : bool) (src : bytes) (sup : bool) (e : bytes)
  : option st :=
  if negb (addr_ok t && addr_ok src && ext_ok e) then None else
  match get_payment s src e with
  | None => None
  | Some p =>
      if negb (Bool.eqb (p_src_up p) sup) then None else
      if negb (tgt_str_eqb (p_target p) (p_tgt_up p) t tup) then None else
      Some (delete_payment s p)
  end.

(** RejectPayment: the message's addresses are parsed to bytes (their spelling is irrelevant);
    the payment must exist, have a target, and the STORED target string must equal
    [target.String()], the canonical lower-case spelling of [t]: a payment whose target was
    stored in upper case cannot be rejected one by one. *)
Definition take_payment (s : st) (t src e : bytes) : option st :=
  if negb (addr_ok t && addr_ok src && ext_ok e) then None else
  match get_payment s src e with
  | None => None
  | Some p =>
      if Nat.eqb (length (p_target p)) 0 then None else
      if negb (tgt_str_eqb (p_target p) (p_tgt_up p) t false) then None else
      Some (delete_payment s p)
  end.

Fixpoint dedup_bytes (l : list bytes) : list bytes :=
  match l with
  | [] => []
  | x :: r => x :: filter (fun y => negb (bytes_eqb x y)) (dedup_bytes r)
  end.

(** MsgRejectPaymentsRequest / MsgCancelPaymentsRequest.ValidateBasic reject duplicate entries
    (the message router validates before the keeper's own de-duplication is reached). *)
Fixpoint nodup_bytes (l : list bytes) : bool :=
  match l with
  | [] => true
  | x :: r => negb (existsb (bytes_eqb x) r) && nodup_bytes r
  end.

(** CancelPayments: every (distinct) external id must name a payment of the source. *)
Definition cancel_payments (s : st) (src : bytes) (es : list bytes) : option st :=
  if negb (addr_ok src) || Nat.eqb (length es) 0 || negb (nodup_bytes es) || negb (forallb ext_ok es)
  then None else
  let es' := dedup_bytes es in
  if negb (forallb (fun e => match get_payment s src e with Some _ => true | None => false end) es')
  then None else
  Some (fold_left (fun s' e => match get_payment s src e with
                               | Some p => delete_payment s' p
                               | None => s'
                               end) es' s).

(** getPaymentsForTargetAndSourceFromStore: scan the target index for (target, source). *)
Definition payments_for_target_source (s : st) (t src : bytes) : list payment :=
  flat_map (fun kv => match get_payment s src (fst kv) with Some p => [p] | None => [] end)
           (pstore s (p_tgt_src t src)).

Fixpoint nodup_spelled (l : list (bytes * bool)) : bool :=
  match l with
  | [] => true
  | x :: r => negb (existsb (fun y => bytes_eqb (fst x) (fst y) && Bool.eqb (snd x) (snd y)) r)
              && nodup_spelled r
  end.

(** RejectPayments: the sources come as strings ((bytes, upper-case?) pairs); ValidateBasic rejects
    duplicate STRINGS, the keeper skips duplicate BYTES; each distinct source must have at least
    one payment for the target (found through the target index). *)
Definition reject_payments (s : st) (t : bytes) (ssrcs : list (bytes * bool)) : option st :=
  let srcs := map fst ssrcs in
  if negb (addr_ok t) || Nat.eqb (length srcs) 0 || negb (forallb addr_ok srcs)
     || negb (nodup_spelled ssrcs) then None else
  let per := map (fun src => payments_for_target_source s t src) (dedup_bytes srcs) in
  if existsb (fun l => Nat.eqb (length l) 0) per then None else
  Some (fold_left delete_payment (concat per) s).

(** UpdatePaymentTarget ([nt = []] removes the target).  The keeper gets the parsed address and
    compares the stored Target STRING with [newTarget.String()] (lower case): naming the account of
    a target stored in upper case is NOT "already has target"; the record is rewritten with the
    lower-case string and old and new index key coincide. *)
Definition retarget_payment (s : st) (src e nt : bytes) : option st :=
  if negb (addr_ok src && ext_ok e && (Nat.eqb (length nt) 0 || addr_ok nt)) then None else
  match get_payment s src e with
  | None => None
  | Some p =>
      if tgt_str_eqb (p_target p) (p_tgt_up p) nt false then None else
      Some (set_payment_in_store s
              {| p_source := p_source p; p_src_up := p_src_up p; p_ext := p_ext p;
                 p_target := nt; p_tgt_up := false; p_amount := p_amount p |})
  end.

(** ---- the stateful core ---- *)
Inductive op :=
| OCreate (o : order)
| OCancel (id : N)
| OSetExt (m id : N) (e : bytes)
| OFill (full : list N) (part : option (N * Z))
| OCloseMarket (m : N)
| OPayCreate (p : payment)
| OPayAccept (t : bytes) (tup : bool) (src : bytes) (sup : bool) (e : bytes)
| OPayTake (t src e : bytes)
| OPayCancel (src : bytes) (es : list bytes)
| OPayRejectAll (t : bytes) (srcs : list (bytes * bool))
| OPayRetarget (src e nt : bytes).

Definition init : st := [].

(** [step s op = (s', ok)]; on failure the old state is returned. *)
Definition step (s : st) (o : op) : st * bool :=
  let lift (r : option st) := match r with Some s' => (s', true) | None => (s, false) end in
  match o with
  | OCreate o => lift (match create_order s o with Some (s', _) => Some s' | None => None end)
  | OCancel id => lift (cancel_order s id)
  | OSetExt m id e => lift (set_order_ext s m id e)
  | OFill full part => lift (fill_orders s full part)
  | OCloseMarket m => (close_market s m, true)
  | OPayCreate p => lift (create_payment s p)
  | OPayAccept t tup src sup e => lift (accept_payment s t tup src sup e)
  | OPayTake t src e => lift (take_payment s t src e)
  | OPayCancel src es => lift (cancel_payments s src es)
  | OPayRejectAll t srcs => lift (reject_payments s t srcs)
  | OPayRetarget src e nt => lift (retarget_payment s src e nt)
  end.

Definition run_from (s : st) (ops : list op) : st := fold_left (fun s' o => fst (step s' o)) ops s.
Definition run (ops : list op) : st := run_from init ops.

(** ---- unpaged lookups (what a listing endpoint returns with an unbounded page) ---- *)

(** Order ids listed under an index prefix: entries whose key suffix is exactly 8 bytes
    (getPageOfOrdersFromIndex's hit test without a type filter). *)
Definition ids_under (s : st) (p : key) : list N :=
  flat_map (fun kv => if Nat.eqb (length (fst kv)) 8 then [be_decode (fst kv)] else [])
           (pstore s p).

Definition by_market (s : st) (m : N) : list N := ids_under s (p_mkt m).
Definition by_owner (s : st) (a : bytes) : list N := ids_under s (p_addr a).
Definition by_asset (s : st) (d : bytes) : list N := ids_under s (p_asset d).
Definition all_orders (s : st) : list N := ids_under s p_all_orders.

(** The pre-fix (commit c4d7ece23 reverted) by-asset lookup: every entry under the prefix counts,
    the order id being the last 8 bytes of the key. *)
Definition by_asset_unfixed (s : st) (d : bytes) : list N :=
  flat_map (fun kv => let k := fst kv in
                      if Nat.leb 8 (length k) then [be_decode (skipn (length k - 8) k)] else [])
           (pstore s (p_asset d)).

Definition payments_of_source (s : st) (src : bytes) : list payment :=
  flat_map (fun kv => match snd kv with VPay p => [p] | _ => [] end) (pstore s (p_pay_src src)).
Definition all_payments (s : st) : list payment :=
  flat_map (fun kv => match snd kv with VPay p => [p] | _ => [] end) (pstore s p_all_pay).

(** parseLengthPrefixedAddr on an index key suffix: (address, rest). *)
Definition parse_len_prefixed (k : key) : option (bytes * bytes) :=
  match k with
  | [] => None
  | l :: r =>
      let n := N.to_nat l in
      if (l =? 0) || Nat.ltb (length r) n then None
      else Some (firstn n r, skipn n r)
  end.

(** GetPaymentsWithTarget: parse (source, external id) from each index key, fetch the payment. *)
Definition payments_of_target (s : st) (t : bytes) : list payment :=
  flat_map (fun kv => match parse_len_prefixed (fst kv) with
                      | Some (src, e) => match get_payment s src e with Some p => [p] | None => [] end
                      | None => []
                      end) (pstore s (p_tgt t)).

(** ---- specification-side definitions used by the property statements ---- *)

(** The order ids handed out by the successful creations of a history, in order. *)
Fixpoint created_from (s : st) (ops : list op) : list N :=
  match ops with
  | [] => []
  | o :: r =>
      (match o with
       | OCreate ord => match create_order s ord with Some (_, id) => [id] | None => [] end
       | _ => []
       end) ++ created_from (fst (step s o)) r
  end.

(** A small concrete history (non-vacuity examples): denoms "aaa" / "aaab", two markets, three
    owners, a partial fill of order 1, an external id set on order 2, order 3 cancelled. *)
Definition example_history : list op :=
  [ OCreate {| o_bid := false; o_market := 1; o_owner := [1;1;1]; o_asset := [97;97;97];
               o_amount := 10%Z; o_ext := [120] |};
    OCreate {| o_bid := false; o_market := 1; o_owner := [2;2;2]; o_asset := [97;97;97;98];
               o_amount := 5%Z; o_ext := [] |};
    OCreate {| o_bid := true; o_market := 2; o_owner := [2;2;2]; o_asset := [97;97;97];
               o_amount := 4%Z; o_ext := [] |};
    OCreate {| o_bid := true; o_market := 2; o_owner := [3;3;3]; o_asset := [97;97;97];
               o_amount := 7%Z; o_ext := [] |};
    OFill [] (Some (1, 6%Z));
    OSetExt 1 2 [121];
    OCancel 3 ].
