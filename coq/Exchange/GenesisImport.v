(** C13 model, part 3: InitGenesis of the exchange module (index rebuild on import).

    Transcribed from
      /repo/x/exchange/genesis.go         GenesisState.Validate ([valid_genesis]: non-zero,
                                          pairwise different market ids; order ids non-zero,
                                          pairwise different, valid orders of known markets, at most
                                          LastOrderId; valid commitments of known markets; valid
                                          payments, no two with the same Source STRING and external id)
      /repo/x/exchange/keeper/genesis.go  Keeper.InitGenesis: initMarket for every market
                                          (storeMarket: setMarketKnown, setMarketAcceptingCommitments;
                                          the market account is created), setLastAutoMarketID,
                                          setOrderInStore for every order UNDER ITS GIVEN ID (an
                                          error panics), setLastOrderID, addCommitmentAmount for every
                                          commitment (entries of one (market, account) add up),
                                          createPaymentInStore for every payment (an error panics:
                                          two payments whose sources are the two SPELLINGS of one
                                          account with one external id pass Validate and fail here).
    The order / payment records, their four + one index prefixes, the commitment entries and the
    known-market entries are written through the SAME store functions the message handlers use
    (Exchange/Index.v, Exchange/Commit.v); nothing is copied from an exported index.
    NOT modelled: Params, the per-market settings other than the accepting-commitments flag, the
    check that the hold module holds the required funds (the harness places the holds first).
    [None] = Validate fails or InitGenesis panics (the chain does not start).  No proofs here. *)
From Coq Require Import ZArith NArith List Bool.
From PV Require Export Exchange.KV Exchange.Index Exchange.Paging Exchange.Commit.
Import ListNotations.
Open Scope N_scope.

Record genesis := {
  g_markets : list (N * bool);             (* market id, accepting commitments *)
  g_last_market : N;
  g_orders : list (N * order);             (* order id, order *)
  g_last_order : N;
  g_commits : list (N * bytes * coins);    (* market, account, amount *)
  g_pays : list payment
}.

(** duplicate test of GenesisState.Validate on payments: Source STRING + " " + external id *)
Fixpoint nodup_paystr (l : list payment) : bool :=
  match l with
  | [] => true
  | p :: r =>
      negb (existsb (fun q => bytes_eqb (p_source p) (p_source q) && Bool.eqb (p_src_up p) (p_src_up q)
                              && bytes_eqb (p_ext p) (p_ext q)) r)
      && nodup_paystr r
  end.

Definition valid_genesis (g : genesis) : bool :=
  let mids := map fst (g_markets g) in
  forallb mkt_ok mids && nodup_ids mids &&
  forallb (fun io => negb (fst io =? 0) && (fst io <? two64) && wf_order (snd io)
                     && mem_id (o_market (snd io)) mids && (fst io <=? g_last_order g)) (g_orders g) &&
  nodup_ids (map fst (g_orders g)) &&
  (g_last_order g <? two64) && (g_last_market g <? two32) &&
  forallb (fun c => mkt_ok (fst (fst c)) && addr_ok (snd (fst c)) && cvalid (snd c)
                    && mem_id (fst (fst c)) mids) (g_commits g) &&
  forallb wf_payment (g_pays g) && nodup_paystr (g_pays g).

(** initMarket + storeMarket (market id given, the derived address holds no foreign account) *)
Definition init_market (s : cstate) (ma : N * bool) : cstate :=
  let kv2 := set (cs_kv s) (k_known (fst ma)) (CRaw []) in
  let kv3 := if snd ma then set kv2 (k_accepting (fst ma)) (CRaw []) else del kv2 (k_accepting (fst ma)) in
  {| cs_kv := kv3;
     cs_accts := if mem_id (fst ma) (cs_accts s) then cs_accts s else fst ma :: cs_accts s |}.

Definition import_orders (s : st) (l : list (N * order)) : option st :=
  fold_opt (fun s' io => set_order_in_store s' (fst io) (snd io)) l s.

Definition import_payments (s : st) (l : list payment) : option st :=
  fold_opt create_payment l s.

Definition import_commitments (kv : cst) (l : list (N * bytes * coins)) : cst :=
  fold_left (fun kv' c => add_commitment kv' (fst (fst c)) (snd (fst c)) (snd c)) l kv.

(** Keeper.InitGenesis after GenesisState.Validate, in the order of the Go code. *)
Definition init_genesis (s : xstate) (g : genesis) : option xstate :=
  if negb (valid_genesis g) then None else
  let c1 := fold_left init_market (g_markets g) (snd s) in
  let c2 := with_kv c1 (set (cs_kv c1) k_last_mkt (CRaw (u32be (g_last_market g)))) in
  match import_orders (fst s) (g_orders g) with
  | None => None
  | Some s1 =>
      let s2 := set s1 k_last (VBytes (u64be (g_last_order g))) in
      let c3 := with_kv c2 (import_commitments (cs_kv c2) (g_commits g)) in
      match import_payments s2 (g_pays g) with
      | None => None
      | Some s3 => Some (s3, c3)
      end
  end.

(** A small concrete genesis (non-vacuity): two markets, orders 3 and 7 (ids with gaps, not in id
    order) with an upper-case asset denom "Aaa" next to "aaa", a commitment given in two entries,
    a payment whose target is stored in the upper-case spelling. *)
Definition example_genesis : genesis :=
  {| g_markets := [(2, true); (5, false)];
     g_last_market := 2;
     g_orders :=
       [ (7, {| o_bid := true; o_market := 5; o_owner := [2;2;2]; o_asset := [65;97;97];
                o_amount := 4%Z; o_ext := [120] |});
         (3, {| o_bid := false; o_market := 2; o_owner := [1;1;1]; o_asset := [97;97;97];
                o_amount := 9%Z; o_ext := [] |}) ];
     g_last_order := 9;
     g_commits := [ (2, [1;1;1], [(aaa, 3%Z)]); (2, [1;1;1], [(aaa, 2%Z); (bbb, 1%Z)]) ];
     g_pays := [ {| p_source := [1;1;1]; p_src_up := false; p_ext := [121]; p_target := [2;2;2];
                    p_tgt_up := true; p_amount := 5%Z |} ] |}.
