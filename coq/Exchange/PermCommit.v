(** The governance-reserved branch of a market endpoint (property C11): MarketUpdateAcceptingCommitments.

    Transcribed Go (repository under check, x/exchange/keeper):
      msg_server.go  MarketUpdateAcceptingCommitments: the PERMISSION_UPDATE guard; then, for every
                     caller that is NOT the authority, validateMarketUpdateAcceptingCommitments; then
                     Keeper.UpdateMarketAcceptingCommitments (fails when the flag already has the value);
                     MarketUpdateIntermediaryDenom (PERMISSION_UPDATE, sets the denom unconditionally);
                     GovManageFees (authority; UpdateFees)
      market.go      validateMarketUpdateAcceptingCommitments: "already has that value", and turning
                     commitments ON needs settlement bips > 0 OR a create-commitment flat fee;
                     updateCommitmentSettlementBips (unset, then set when > 0)

    Documented (x/exchange/spec/01_concepts.md §Commitments, 03_messages.md §MarketUpdateAcceptingCommitments):
    "For a market to start accepting commitments, it must have either a settlement bips, or a
    commitment creation flat fee defined"; the fee options are managed only by the fee-management
    governance proposal.  So in a market WITHOUT commitment fees, turning commitments on is reserved
    for the governance authority, and no sequence of calls by other accounts can change that.

    Which endpoints have such a branch is read off the generated path table ([reserved_branch_endpoints]:
    handlers that test both a Can* permission and the authority); the rule of the branch is applied
    only when the table shows the handler's structure ([reserved_branch_ok]) and the validation function
    has the documented shape ([validate_shape_ok]) - otherwise the model lets every PERMISSION_UPDATE
    holder through, and the theorems about it stop checking.

    Abstracted: the market configuration is four booleans (accepting commitments, settlement bips > 0,
    at least one create-commitment flat fee, intermediary denom non-empty); the harness adds / removes
    one fixed fee option, so "remove" empties the list; grants do not change during such a history. *)
From Coq Require Import List String Bool NArith.
From PV Require Export Exchange.Perms.
From PV Require Import Exchange.GovGuards Exchange.GuardPaths Gen.GenExchangePerms Gen.GenHandlerPaths.
Import ListNotations.
Open Scope string_scope.

Record mconf := { mc_accepting : bool; mc_bips : bool; mc_cfee : bool; mc_denom : bool }.

Inductive cop :=
| CoAccepting (caller : N) (new_allow : bool)         (* MsgMarketUpdateAcceptingCommitmentsRequest *)
| CoDenom (caller : N) (nonempty : bool)              (* MsgMarketUpdateIntermediaryDenomRequest *)
| CoFees (caller : N) (add_cfee remove_cfee set_bips unset_bips : bool).  (* MsgGovManageFeesRequest *)

Definition cop_caller (op : cop) : N :=
  match op with CoAccepting c _ | CoDenom c _ | CoFees c _ _ _ _ => c end.

(* ------------------------------------------------------------------ what the generated tables must show *)

Fixpoint gpred_mentions (f : gpred -> bool) (g : gpred) {struct g} : bool :=
  let fix any (l : list gpred) : bool := match l with [] => false | x :: r => gpred_mentions f x || any r end in
  f g || match g with GAny l | GAll l => any l | _ => false end.

Definition path_has (f : gpred -> bool) (p : list ev) : bool :=
  existsb (fun e => match e with EvGuard _ g => gpred_mentions f g | _ => false end) p.

(** Exchange handlers that test BOTH a Can* permission and the authority somewhere in their body. *)
Definition reserved_branch_endpoints : list string :=
  map hp_endpoint
      (filter (fun r => existsb (path_has (fun g => match g with GCan _ _ _ => true | _ => false end)) (hp_paths r)
                        && existsb (path_has (fun g => match g with GAuth _ _ => true | _ => false end)) (hp_paths r))
              exchange_rows).

Definition validate_call : string :=
  "validateMarketUpdateAcceptingCommitments(k.getStore(ctx), msg.MarketId, msg.AcceptingCommitments)".

(** On every path of MarketUpdateAcceptingCommitments, before the first effect, the caller was found to
    be the authority or the validation returned no error (on top of the PERMISSION_UPDATE guard, which
    C11_guard_dominates_effects covers). *)
Definition reserved_branch_ok : bool :=
  existsb (fun r => hp_endpoint r =? "MarketUpdateAcceptingCommitments") exchange_rows &&
  forallb (fun r => negb (hp_endpoint r =? "MarketUpdateAcceptingCommitments") ||
             forallb (path_guarded (fun g => gpred_eqb g (GAuth "msg.Admin" "IsAuthority")
                                             || gpred_eqb g (GCallOk validate_call))) (hp_paths r))
          exchange_rows.

Definition documented_validate_accepting : list string := [
  (* validateMarketUpdateAcceptingCommitments(#0 store, #1 marketID, #2 newAllow) *)
  "if isMarketAcceptingCommitments(#0, #1) == #2 { return $error }";
  "if #2 { if getCommitmentSettlementBips(#0, #1) == 0 && len(getCreateCommitmentFlatFees(#0, #1)) == 0 { return $error } }";
  "return nil"
].

Definition validate_shape_ok : bool :=
  strings_eqb (fs_stmts gen_validate_accepting_commitments) documented_validate_accepting.

Definition commit_rule_checked : bool := reserved_branch_ok && validate_shape_ok.

(* ------------------------------------------------------------------ the steps *)

Definition set_accepting (c : mconf) (b : bool) : mconf :=
  {| mc_accepting := b; mc_bips := mc_bips c; mc_cfee := mc_cfee c; mc_denom := mc_denom c |}.

(** validateMarketUpdateAcceptingCommitments *)
Definition validate_accepting (c : mconf) (new_allow : bool) : bool :=
  negb (Bool.eqb (mc_accepting c) new_allow) &&
  (negb new_allow || mc_bips c || mc_cfee c).

Definition commit_step (auth : N) (st : store) (m : N) (c : mconf) (op : cop) : mconf * bool :=
  match op with
  | CoAccepting caller new_allow =>
      if endpoint_allowed "MarketUpdateAcceptingCommitments" auth st m caller then
        if (if commit_rule_checked then is_authority auth caller || validate_accepting c new_allow else true)
        then if Bool.eqb (mc_accepting c) new_allow then (c, false) else (set_accepting c new_allow, true)
        else (c, false)
      else (c, false)
  | CoDenom caller d =>
      if endpoint_allowed "MarketUpdateIntermediaryDenom" auth st m caller
      then ({| mc_accepting := mc_accepting c; mc_bips := mc_bips c; mc_cfee := mc_cfee c; mc_denom := d |}, true)
      else (c, false)
  | CoFees caller add_cfee remove_cfee set_bips unset_bips =>
      if endpoint_allowed "GovManageFees" auth st m caller
      then ({| mc_accepting := mc_accepting c;
               mc_bips := if set_bips then true else if unset_bips then false else mc_bips c;
               mc_cfee := if add_cfee then true else if remove_cfee then false else mc_cfee c;
               mc_denom := mc_denom c |}, true)
      else (c, false)
  end.

Definition commit_run (auth : N) (st : store) (m : N) (c : mconf) (ops : list cop) : mconf :=
  fold_left (fun s op => fst (commit_step auth st m s op)) ops c.
