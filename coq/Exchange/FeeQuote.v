(** Fee quotes of a market and the per-transaction fee bookkeeping (C19).

    Part 1 — ratio fee options as the exchange keeper computes them for the OrderFeeCalc query
    (x/exchange/keeper/market.go: getBuyerSettlementFeeRatiosForPriceDenom,
    calcBuyerSettlementRatioFeeOptions, getSellerSettlementRatio,
    calculateSellerSettlementRatioFee).  A market's ratio table is the list of stored entries
    (price denom, fee denom, price amount, fee amount) in store order (by price denom, then fee
    denom); denoms are identified by numbers chosen by the harness so that number order = byte
    order of the denom strings.

    Part 2 — the fee gas meter of a transaction (internal/antewrapper/fee_gas_meter.go) as the
    message router fills it (internal/handlers/msg_service_router.go): per message the additional
    fee is split by MsgFeesDistribution.Increase and consumed under the key (message type,
    recipient); FeeConsumedDistributions adds the entries up per recipient (the empty recipient is
    the fee module) and FeeConsumed over all keys. One denom. *)
From Coq Require Import ZArith NArith List Bool.
From PV Require Import Exchange.Arith.
Import ListNotations.
Open Scope Z_scope.

(** * Part 1: ratio fee options *)

Record ratio := { r_pd : N; r_fd : N; r_p : Z; r_f : Z }.

Definition ratios_for (rs : list ratio) (pd : N) : list ratio :=
  filter (fun r => N.eqb (r_pd r) pd) rs.

(** The fee one stored ratio asks for a price amount (ApplyToLoosely); [None] = error. *)
Definition ratio_charge (r : ratio) (p : Z) : option Z :=
  match apply_loosely (r_p r) (r_f r) p with
  | Some (x, _) => Some x
  | None => None
  end.

Fixpoint charges (l : list ratio) (p : Z) : list (N * Z) :=
  match l with
  | [] => []
  | r :: t => match ratio_charge r p with
              | Some x => (r_fd r, x) :: charges t p
              | None => charges t p
              end
  end.

(** calcBuyerSettlementRatioFeeOptions: [None] = error, [Some l] = the options (fee denom, amount)
    in store order; a market without buyer ratios quotes nothing. *)
Definition buyer_options (rs : list ratio) (pd : N) (p : Z) : option (list (N * Z)) :=
  match ratios_for rs pd with
  | [] => match rs with [] => Some [] | _ => None end
  | mine => match charges mine p with
            | [] => None
            | l => Some l
            end
  end.

(** calculateSellerSettlementRatioFee: [None] = error, [Some None] = no fee, [Some (Some x)]. *)
Definition seller_ratio_fee (rs : list ratio) (pd : N) (p : Z) : option (option Z) :=
  match find (fun r => N.eqb (r_pd r) pd && N.eqb (r_fd r) pd) rs with
  | Some r => match ratio_charge r p with
              | Some x => Some (Some x)
              | None => None
              end
  | None => match rs with [] => Some None | _ => None end
  end.

(** * Part 2: the fee gas meter of one transaction *)

Definition mkey := (N * option N)%type.   (* message type, recipient ([None] = the fee module) *)

Definition on_eqb (a b : option N) : bool :=
  match a, b with
  | Some x, Some y => N.eqb x y
  | None, None => true
  | _, _ => false
  end.

Definition mkey_eqb (a b : mkey) : bool := N.eqb (fst a) (fst b) && on_eqb (snd a) (snd b).

Definition meter := list (mkey * Z).

(** ConsumeFee: add to the entry of the key (created when absent). *)
Fixpoint meter_add (m : meter) (k : mkey) (v : Z) : meter :=
  match m with
  | [] => [(k, v)]
  | (k', v') :: t => if mkey_eqb k k' then (k', v' + v) :: t else (k', v') :: meter_add t k v
  end.

(** One message with one additional fee: (type, amount, recipient bips, recipient).  The router
    computes the message's MsgFeesDistribution, skips a zero total, consumes the module part (when
    set) and then every recipient's part. *)
Definition mop := (N * Z * Z * option N)%type.

Definition meter_msg (m : meter) (o : mop) : meter :=
  let '(ty, amt, bips, rcp) := o in
  let d := fst (dist_increase dist_empty amt bips rcp) in
  if d_total d =? 0 then m
  else
    let m1 := if d_module d =? 0 then m else meter_add m (ty, None) (d_module d) in
    fold_left (fun acc p => meter_add acc (ty, Some (fst p)) (snd p)) (d_recips d) m1.

Definition meter_run (ops : list mop) : meter := fold_left meter_msg ops [].

(** FeeConsumed. *)
Definition meter_total (m : meter) : Z := fold_right (fun e acc => snd e + acc) 0 m.

(** FeeConsumedDistributions, read at one recipient. *)
Definition meter_for (m : meter) (r : option N) : Z :=
  fold_right (fun e acc => if on_eqb (snd (fst e)) r then snd e + acc else acc) 0 m.

(** What the documented rule gives a recipient: the floor share of every fee naming it. *)
Definition share_of (o : mop) (r : N) : Z :=
  let '(_, amt, bips, rcp) := o in
  match rcp with
  | Some r' => if N.eqb r r' && (0 <? amt) then amt * bips / 10000 else 0
  | None => 0
  end.

Definition shares (ops : list mop) (r : N) : Z := fold_right (fun o acc => share_of o r + acc) 0 ops.

Definition module_part_of (o : mop) : Z :=
  let '(_, amt, bips, rcp) := o in
  if 0 <? amt then match rcp with Some _ => amt - amt * bips / 10000 | None => amt end else 0.

Definition module_parts (ops : list mop) : Z := fold_right (fun o acc => module_part_of o + acc) 0 ops.

Definition fees_total (ops : list mop) : Z :=
  fold_right (fun o acc => let '(_, amt, _, _) := o in (if 0 <? amt then amt else 0) + acc) 0 ops.

Definition mop_ok (o : mop) : Prop := let '(_, _, bips, _) := o in 0 <= bips <= 10000.

(** * Part 3: the exchange's share of a multi-denom fee (Keeper.CalculateExchangeSplit)

    The split of a denom is its entry in the params' DenomSplits, else the default split.  The fee
    is a list of (denom, amount); a coin with amount 0 or split 0 contributes nothing, every other
    coin contributes the rounded-up share in its own denom. *)
Definition split_for (dflt : Z) (tbl : list (N * Z)) (d : N) : Z :=
  match find (fun e => N.eqb (fst e) d) tbl with
  | Some (_, s) => s
  | None => dflt
  end.

Fixpoint exchange_split_coins (dflt : Z) (tbl : list (N * Z)) (coins : list (N * Z)) : list (N * Z) :=
  match coins with
  | [] => []
  | (d, a) :: t =>
      let sp := split_for dflt tbl d in
      if (a =? 0) || (sp =? 0) then exchange_split_coins dflt tbl t
      else (d, exchange_split a sp) :: exchange_split_coins dflt tbl t
  end.
