(** C13, tie to the Go source: the REVIEWED coverage table of the constants of
    /repo/x/exchange/keeper/keys.go.

    For every constant declared in keys.go there is one row saying either which definition of the
    C13 models (Exchange/Index.v, Exchange/Commit.v) lays out keys with this byte ([Modelled]), or
    why the byte is outside the C13 models ([OutOfScope] / [OutOfScopeStr]).  The table
    translate/exchkeys reads off the source on every run is Gen/GenExchangeKeys.v
    ([gen_exchange_key_consts]); the obligation (Proofs/KeyCoverageProofs.v, Properties/C13.v) is

      all_covered gen_exchange_key_consts      every constant of keys.go has a row with the SAME
                                               name AND value ([KUnrecognised] / [KRawLiteral] rows
                                               are never covered: an unknown shape or a key byte
                                               written as a raw literal breaks it)
      no_stale_rows gen_exchange_key_consts    every row names a constant keys.go still declares
                                               with that value
      model_bytes_ok                           the byte a [Modelled] row gives (looked up BY NAME
                                               in the table, never repeated here) is the byte the
                                               model definition really puts in front of its keys.

    So: a new prefix in keys.go, a changed value, a removed constant, or a model edited to another
    byte makes the obligation false, and the reviewer has to add / correct a row here.

    What this does NOT establish: that keys.go is the only place of x/exchange/keeper that builds
    store keys, nor anything about how the functions of keys.go combine the bytes (that is what the
    correspondence harness compares on every run).  Definitions only, no proofs in this file. *)
From Coq Require Import ZArith NArith List String Bool.
From PV Require Import Exchange.KeyTable Exchange.KV Exchange.Index Exchange.Commit.
Import ListNotations.
Open Scope N_scope.

Inductive cov_row :=
| Modelled (name : string) (value : N) (model : string)
| OutOfScope (name : string) (value : N) (reason : string)
| OutOfScopeStr (name : string) (value : string) (reason : string).

Definition per_market_setting : string :=
  "per-market setting under 0x01 | market id: single-key lookups (or one short prefix scan read as a whole by GetMarket), no secondary index and no paginated listing, so nothing C13 speaks about; ".

Definition coverage : list cov_row := [
  (* ---- top-level type bytes ---- *)
  OutOfScope "KeyTypeParams" 0
    "params entries 0x00 | name [| denom]: no records, no lookup index, not listed by any C13 endpoint; the fee parameters are C19 / C20";
  Modelled "KeyTypeLastMarketID" 6 "Exchange/Commit.v k_last_mkt (last_market_id, next_market_id)";
  Modelled "KeyTypeKnownMarketID" 7 "Exchange/Commit.v p_known / k_known (known_markets, create_market)";
  Modelled "KeyTypeLastOrderID" 8 "Exchange/Index.v k_last (last_order_id, next_order_id)";
  Modelled "KeyTypeMarket" 1
    "Exchange/Commit.v k_accepting (first byte; of the per-market entries only the accepting-commitments flag is modelled, see the MarketKeyType rows)";
  Modelled "KeyTypeOrder" 2 "Exchange/Index.v k_order / p_all_orders";
  Modelled "KeyTypeMarketToOrderIndex" 3 "Exchange/Index.v p_mkt / k_mkt";
  Modelled "KeyTypeAddressToOrderIndex" 4 "Exchange/Index.v p_addr / k_addr";
  Modelled "KeyTypeAssetToOrderIndex" 5 "Exchange/Index.v p_asset / k_asset";
  Modelled "KeyTypeMarketExternalIDToOrderIndex" 9 "Exchange/Index.v k_ext";
  Modelled "KeyTypeCommitment" 99 "Exchange/Commit.v p_commit_all / p_commit_mkt / k_commit";
  Modelled "KeyTypePayment" 112 "Exchange/Index.v p_all_pay / p_pay_src / k_pay";
  Modelled "KeyTypeTargetToPaymentIndex" 16 "Exchange/Index.v p_tgt / p_tgt_src / k_tgt";
  (* ---- strings that follow 0x00 in params keys ---- *)
  OutOfScopeStr "ParamsKeyTypeSplit" "split"
    "name part of a params key (0x00 | ""split"" [| denom]); params are out of scope, see KeyTypeParams";
  OutOfScopeStr "ParamsKeyTypeFeeCreatePaymentFlat" "fee_create_payment_flat"
    "name part of a params key; params are out of scope, see KeyTypeParams (payment creation fee: C20)";
  OutOfScopeStr "ParamsKeyTypeFeeAcceptPaymentFlat" "fee_accept_payment_flat"
    "name part of a params key; params are out of scope, see KeyTypeParams (payment acceptance fee: C20)";
  (* ---- market-specific type bytes: 0x01 | market id | this byte ---- *)
  OutOfScope "MarketKeyTypeCreateAskFlat" 0 (per_market_setting ++ "create-ask flat fee options: C20");
  OutOfScope "MarketKeyTypeCreateBidFlat" 1 (per_market_setting ++ "create-bid flat fee options: C20");
  OutOfScope "MarketKeyTypeSellerSettlementFlat" 2 (per_market_setting ++ "seller settlement flat fee options: C01 / C20");
  OutOfScope "MarketKeyTypeSellerSettlementRatio" 3 (per_market_setting ++ "seller settlement fee ratios: C01 / C19");
  OutOfScope "MarketKeyTypeBuyerSettlementFlat" 4 (per_market_setting ++ "buyer settlement flat fee options: C20");
  OutOfScope "MarketKeyTypeBuyerSettlementRatio" 5 (per_market_setting ++ "buyer settlement fee ratios: C19 / C20");
  OutOfScope "MarketKeyTypeNotAcceptingOrders" 6 (per_market_setting ++ "not-accepting-orders flag: admission of orders is C20");
  OutOfScope "MarketKeyTypeUserSettle" 7 (per_market_setting ++ "user-settle flag: a switch read when a settlement endpoint authorises its caller, not a record or a lookup");
  OutOfScope "MarketKeyTypePermissions" 8 (per_market_setting ++ "permission grants address -> permission: C11");
  OutOfScope "MarketKeyTypeReqAttr" 9 (per_market_setting ++ "required attributes per order type / commitments: C20");
  Modelled "MarketKeyTypeAcceptingCommitments" 16 "Exchange/Commit.v k_accepting (last byte; set_accepting, create_market)";
  OutOfScope "MarketKeyTypeCreateCommitmentFlat" 17 (per_market_setting ++ "create-commitment flat fee options: C20");
  OutOfScope "MarketKeyTypeCommitmentSettlementBips" 18 (per_market_setting ++ "commitment settlement bips: C19");
  OutOfScope "MarketKeyTypeIntermediaryDenom" 19 (per_market_setting ++ "intermediary denom of the commitment settlement fee: C19");
  (* ---- not key prefixes ---- *)
  Modelled "OrderKeyTypeAsk" 0
    "Exchange/Index.v ty_byte (o_bid = false): the VALUE of the three order index entries and the first byte of an order record's value, not a key prefix (also the sub-key of the ask required-attributes entry, C20)";
  Modelled "OrderKeyTypeBid" 1
    "Exchange/Index.v ty_byte (o_bid = true): as OrderKeyTypeAsk";
  OutOfScope "RecordSeparator" 30
    "not a key prefix: separator byte inside fee-ratio key suffixes / values and required-attribute values (entries that are themselves out of scope, see MarketKeyType*Ratio and MarketKeyTypeReqAttr)"
].

(** A constant of keys.go and a row agree: same name AND same value. *)
Definition row_matches (c : key_const) (r : cov_row) : bool :=
  match c, r with
  | KByte n v, Modelled n' v' _ => String.eqb n n' && (v =? v')
  | KByte n v, OutOfScope n' v' _ => String.eqb n n' && (v =? v')
  | KStr n s, OutOfScopeStr n' s' _ => String.eqb n n' && String.eqb s s'
  | _, _ => false
  end.

Definition covered (c : key_const) : bool := existsb (row_matches c) coverage.

Definition all_covered (l : list key_const) : bool := forallb covered l.

Definition no_stale_rows (l : list key_const) : bool :=
  forallb (fun r => existsb (fun c => row_matches c r) l) coverage.

(** The byte of the [Modelled] row called [n]; 256 (not a byte) when there is no such row. *)
Definition modelled_byte (n : string) : N :=
  match find (fun r => match r with Modelled n' _ _ => String.eqb n n' | _ => false end) coverage with
  | Some (Modelled _ v _) => v
  | _ => 256
  end.

(** First byte of a model key; 257 for the empty key (never equal to a [modelled_byte]). *)
Definition first_byte (k : key) : N := hd 257 k.

Definition probe_order (bid : bool) : order :=
  {| o_bid := bid; o_market := 1; o_owner := [1]; o_asset := [97; 97; 97]; o_amount := 1%Z; o_ext := [] |}.

(** The model definitions put exactly the table's bytes in front of their keys (the bytes are
    looked up by constant NAME; single-byte keys and the accepting-commitments key are compared as
    whole keys). *)
Definition model_bytes_ok : bool :=
  (* Exchange/Index.v *)
  key_eqb p_all_orders [modelled_byte "KeyTypeOrder"] &&
  (first_byte (k_order 0) =? modelled_byte "KeyTypeOrder") &&
  (first_byte (p_mkt 0) =? modelled_byte "KeyTypeMarketToOrderIndex") &&
  (first_byte (k_mkt 0 0) =? modelled_byte "KeyTypeMarketToOrderIndex") &&
  (first_byte (p_addr []) =? modelled_byte "KeyTypeAddressToOrderIndex") &&
  (first_byte (k_addr [] 0) =? modelled_byte "KeyTypeAddressToOrderIndex") &&
  (first_byte (p_asset []) =? modelled_byte "KeyTypeAssetToOrderIndex") &&
  (first_byte (k_asset [] 0) =? modelled_byte "KeyTypeAssetToOrderIndex") &&
  key_eqb k_last [modelled_byte "KeyTypeLastOrderID"] &&
  (first_byte (k_ext 0 []) =? modelled_byte "KeyTypeMarketExternalIDToOrderIndex") &&
  key_eqb p_all_pay [modelled_byte "KeyTypePayment"] &&
  (first_byte (p_pay_src []) =? modelled_byte "KeyTypePayment") &&
  (first_byte (k_pay [] []) =? modelled_byte "KeyTypePayment") &&
  (first_byte (p_tgt []) =? modelled_byte "KeyTypeTargetToPaymentIndex") &&
  (first_byte (p_tgt_src [] []) =? modelled_byte "KeyTypeTargetToPaymentIndex") &&
  (first_byte (k_tgt [] [] []) =? modelled_byte "KeyTypeTargetToPaymentIndex") &&
  (ty_byte (probe_order false) =? modelled_byte "OrderKeyTypeAsk") &&
  (ty_byte (probe_order true) =? modelled_byte "OrderKeyTypeBid") &&
  (* Exchange/Commit.v *)
  key_eqb k_last_mkt [modelled_byte "KeyTypeLastMarketID"] &&
  key_eqb p_known [modelled_byte "KeyTypeKnownMarketID"] &&
  (first_byte (k_known 0) =? modelled_byte "KeyTypeKnownMarketID") &&
  key_eqb p_commit_all [modelled_byte "KeyTypeCommitment"] &&
  (first_byte (p_commit_mkt 0) =? modelled_byte "KeyTypeCommitment") &&
  (first_byte (k_commit 0 []) =? modelled_byte "KeyTypeCommitment") &&
  key_eqb (k_accepting 0)
          (modelled_byte "KeyTypeMarket" :: [0; 0; 0; 0] ++ [modelled_byte "MarketKeyTypeAcceptingCommitments"]).

(** The type bytes of one level are pairwise different (top level: names "KeyType...", below
    0x01 | market id: names "MarketKeyType..."): no two kinds of entry share a prefix byte. *)
Definition level_bytes (pre : string) : list N :=
  flat_map (fun r => match r with
                     | Modelled n v _ | OutOfScope n v _ => if String.prefix pre n then [v] else []
                     | OutOfScopeStr _ _ _ => []
                     end) coverage.

Fixpoint nodup_N (l : list N) : bool :=
  match l with
  | [] => true
  | x :: r => negb (existsb (N.eqb x) r) && nodup_N r
  end.

Definition type_bytes_distinct : bool :=
  nodup_N (level_bytes "KeyType") && nodup_N (level_bytes "MarketKeyType").
