(** C13, tie to the Go source: the row type of the table that translate/exchkeys reads off
    /repo/x/exchange/keeper/keys.go (rendered into Gen/GenExchangeKeys.v on every run).

      KByte name value         a constant declared as byte(<int literal>) (or resolved one step
                               through <pkg>.<Name> into a package of the same module, e.g.
                               OrderKeyTypeAsk = exchange.OrderTypeByteAsk)
      KStr name value          a constant declared as a string literal
      KUnrecognised name text  any other constant (or package-level variable) of keys.go: the
                               extractor never drops one; no coverage row can match it
      KRawLiteral func value   a byte/string literal that the function [func] of keys.go puts into a
                               byte slice without going through a named constant; never covered

    Definitions only. *)
From Coq Require Import NArith String.

Inductive key_const :=
| KByte (name : string) (value : N)
| KStr (name : string) (value : string)
| KUnrecognised (name : string) (text : string)
| KRawLiteral (func : string) (value : N).
