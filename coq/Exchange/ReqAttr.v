(** Model of the exchange module's required-attribute handling (property C20).

    Go sources transcribed here (function by function):
      x/name/types/name.go     NormalizeName, ValidateName, ValidateNameSegment (IsValidName)
      x/exchange/market.go     NormalizeReqAttrs, IsValidReqAttr, ValidateReqAttrs (duplicate rule),
                               IsReqAttrMatch, HasReqAttrMatch, FindUnmatchedReqAttrs
      x/exchange/keeper/market.go  acctHasReqAttrs (the part after the attribute keeper returned the
                               account's attribute names)

    Names are byte strings ([list ascii]); the Go functions used on them (strings.Split on ".",
    strings.HasPrefix / HasSuffix, slicing reqAttr[1:]) are byte operations, transcribed as such.
    Assumed / not modelled: only ASCII input (bytes < 128) — strings.TrimSpace / ToLower /
    unicode.IsLower / IsDigit are modelled on ASCII only (white space = TAB, LF, VT, FF, CR, SPACE);
    of the forms uuid.Parse accepts only the canonical 36-byte one is modelled (a 32-hex-digit
    segment is valid by the character rule anyway; the "urn:uuid:" and "{...}" forms are not
    modelled).  An account's attribute names are whatever AttributeKeeper.GetAllAttributesAddr
    returns (the harness observes exactly that list).  No proofs in this file. *)
From Coq Require Import List Bool Ascii String Arith.
Import ListNotations.

Definition bytes := list ascii.
Definition bytes_of (s : string) : bytes := list_ascii_of_string s.

Fixpoint bytes_eqb (a b : bytes) : bool :=
  match a, b with
  | [], [] => true
  | x :: a', y :: b' => Ascii.eqb x y && bytes_eqb a' b'
  | _, _ => false
  end.

Definition dot : ascii := "."%char.
Definition star : ascii := "*"%char.
Definition dash : ascii := "-"%char.

(** strings.HasPrefix / strings.HasSuffix. *)
Fixpoint has_prefix (p s : bytes) : bool :=
  match p, s with
  | [], _ => true
  | x :: p', y :: s' => Ascii.eqb x y && has_prefix p' s'
  | _ :: _, [] => false
  end.
Definition has_suffix (suf s : bytes) : bool := has_prefix (rev suf) (rev s).

(** strings.Split(s, "."): never empty; "a..b" has an empty middle segment. *)
Fixpoint split_dot (s : bytes) : list bytes :=
  match s with
  | [] => [[]]
  | c :: r =>
      if Ascii.eqb c dot then [] :: split_dot r
      else match split_dot r with
           | seg :: rest => (c :: seg) :: rest
           | [] => [[c]]
           end
  end.

(** strings.Join(l, "."). *)
Fixpoint join_dot (l : list bytes) : bytes :=
  match l with
  | [] => []
  | [s] => s
  | s :: r => s ++ dot :: join_dot r
  end.

(** ASCII white space / lower-casing. *)
Definition is_space (c : ascii) : bool :=
  let n := nat_of_ascii c in Nat.eqb n 32 || (Nat.leb 9 n && Nat.leb n 13).
Definition to_lower (c : ascii) : ascii :=
  let n := nat_of_ascii c in if Nat.leb 65 n && Nat.leb n 90 then ascii_of_nat (n + 32) else c.

Fixpoint trim_left (s : bytes) : bytes :=
  match s with
  | c :: r => if is_space c then trim_left r else s
  | [] => []
  end.
Definition trim_space (s : bytes) : bytes := rev (trim_left (rev (trim_left s))).

(** nametypes.NormalizeName *)
Definition normalize_name (s : bytes) : bytes :=
  join_dot (map (fun seg => map to_lower (trim_space seg)) (split_dot s)).

(** nametypes.ValidateNameSegment *)
Definition is_lower_c (c : ascii) : bool := let n := nat_of_ascii c in Nat.leb 97 n && Nat.leb n 122.
Definition is_digit_c (c : ascii) : bool := let n := nat_of_ascii c in Nat.leb 48 n && Nat.leb n 57.
Definition is_hex_c (c : ascii) : bool :=
  let n := nat_of_ascii c in
  is_digit_c c || (Nat.leb 97 n && Nat.leb n 102) || (Nat.leb 65 n && Nat.leb n 70).

Fixpoint uuid_shape (i : nat) (s : bytes) : bool :=
  match s with
  | [] => Nat.eqb i 36
  | c :: r =>
      (if Nat.eqb i 8 || Nat.eqb i 13 || Nat.eqb i 18 || Nat.eqb i 23
       then Ascii.eqb c dash else is_hex_c c) && uuid_shape (S i) r
  end.
Definition is_uuid (s : bytes) : bool := uuid_shape 0 s.

Definition count_dash (s : bytes) : nat := List.length (filter (Ascii.eqb dash) s).

Definition valid_segment (s : bytes) : bool :=
  is_uuid s ||
  (Nat.leb (count_dash s) 1 &&
   forallb (fun c => Ascii.eqb c dash || is_lower_c c || is_digit_c c) s).

(** nametypes.IsValidName (no length rule: an empty segment is "valid" here) *)
Definition is_valid_name (s : bytes) : bool := forallb valid_segment (split_dot s).

(** exchange.IsValidReqAttr: strings.TrimPrefix(reqAttr, "*."), non-empty, IsValidName. *)
Definition wild_prefix : bytes := [star; dot].
Definition trim_wild (s : bytes) : bytes :=
  if has_prefix wild_prefix s then skipn 2 s else s.
Definition is_valid_req_attr (s : bytes) : bool :=
  let t := trim_wild s in
  match t with [] => false | _ => is_valid_name t end.

(** exchange.NormalizeReqAttrs: the normalized list, and whether every entry is valid. *)
Definition normalize_req_attrs (l : list bytes) : list bytes * bool :=
  let n := map normalize_name l in (n, forallb is_valid_req_attr n).

(** exchange.ValidateReqAttrs (run by Market.Validate in the message's ValidateBasic): every
    normalized entry valid and no two entries with the same normalized form. *)
Fixpoint mem_bytes (x : bytes) (l : list bytes) : bool :=
  match l with [] => false | y :: r => bytes_eqb x y || mem_bytes x r end.
Fixpoint nodup_bytes (l : list bytes) : bool :=
  match l with [] => true | x :: r => negb (mem_bytes x r) && nodup_bytes r end.
Definition validate_req_attrs (l : list bytes) : bool :=
  let n := map normalize_name l in forallb is_valid_req_attr n && nodup_bytes n.

(** exchange.IsReqAttrMatch *)
Definition is_req_attr_match (req acc : bytes) : bool :=
  match req, acc with
  | [], _ => false
  | _, [] => false
  | _, _ =>
      if has_prefix wild_prefix req then has_suffix (skipn 1 req) acc   (* reqAttr[1:] keeps the "." *)
      else bytes_eqb req acc
  end.

Definition has_req_attr_match (req : bytes) (accs : list bytes) : bool :=
  existsb (is_req_attr_match req) accs.

Definition find_unmatched (reqs accs : list bytes) : list bytes :=
  filter (fun r => negb (has_req_attr_match r accs)) reqs.

(** Keeper.acctHasReqAttrs, given the names of the account's attributes. *)
Definition acct_has_req_attrs (reqs accs : list bytes) : bool :=
  match reqs with
  | [] => true
  | _ => match find_unmatched reqs accs with [] => true | _ => false end
  end.

(** ** Changes to a stored required-attribute list (MsgMarketManageReqAttrs)

    strings.EqualFold on ASCII: equal after lower-casing (what IntersectionOfAttributes uses to
    compare the RAW to-add entries with the RAW to-remove entries in ValidateBasic). *)
Definition eq_fold (a b : bytes) : bool := bytes_eqb (map to_lower a) (map to_lower b).

(** exchange.ValidateAddRemoveReqAttrs (run by MsgMarketManageReqAttrsRequest.ValidateBasic):
    the entries to add pass ValidateReqAttrs, and no entry to add equals (EqualFold, on the text as
    given) an entry to remove. *)
Definition validate_add_remove_req_attrs (add rem : list bytes) : bool :=
  validate_req_attrs add &&
  forallb (fun a => negb (existsb (eq_fold a) rem)) add.

(** keeper.updateReqAttrs on already normalised lists: [None] = it returned errors (some entry to
    remove is not currently required, or some entry to add already is - both judged against the
    CURRENT list, so removing and re-adding one entry in the same message is an error);
    otherwise the new list: the current entries that are not removed, in order, followed by the
    entries to add. *)
Definition update_req_attrs (cur rem add : list bytes) : option (list bytes) :=
  let bad_rem := existsb (fun a => negb (mem_bytes a cur)) rem in
  let kept := filter (fun a => negb (mem_bytes a rem)) cur in
  let bad_add := existsb (fun a => mem_bytes a cur) add in
  let added := filter (fun a => negb (mem_bytes a cur)) add in
  if bad_rem || bad_add then None else Some (kept ++ added).
